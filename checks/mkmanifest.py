import json,sys
props=[json.loads(l) for l in open('/verif/properties.jsonl')]
claimed=json.load(open('/verif/checks/claims.json'))
baseline=json.load(open('/root/.vp/BASELINE.json'))['cmd']
checks=[]; na=[]
for p in props:
    pid=p['id']
    if pid in claimed['checks']:
        c=claimed['checks'][pid]
        checks.append({
          "property_id": pid,
          "quick_cmd": f"./check {pid} quick",
          "thorough_cmd": f"./check {pid} thorough",
          "evidence_file": f"/verif/evidence/{pid}.json",
          "replay_cmd_template": "./check --replay {path}",
          "engine": "gobmc",
          "level_claimed": {"category":"model_checking","text":c['text'],"design_ref":c.get('design_ref','DESIGN.md §6 '+pid)},
          "level_note": c['note'],
          "technique": c.get('technique',"bounded symbolic execution of the real Go code (go/ssa) with SMT-decided assertions (z3); counterexamples replayed natively")
        })
    else:
        na.append({"property_id":pid,"reason":claimed['not_applicable'].get(pid,"not decided yet by the solver-based machinery in this revision (check under construction)")})
m={"version":1,
 "setup_cmd":"cd /verif/engine && GOFLAGS=-mod=mod GOPROXY=off GOSUMDB=off GOTOOLCHAIN=local go build -o ../bin/gobmc . && cd /verif && ./check selftest quick",
 "hooks":{"guard":"verif","enable":"no source hooks: harnesses are injected as overlays (go/packages Overlay for the encoder, go test -overlay for native replay)","baseline_off_cmd":baseline,"source_commits":[],"add_only":True},
 "engines":[{"name":"gobmc","path":"/verif/engine","serves_properties":sorted(claimed['checks'].keys()),"kind_free_text":"symbolic executor for go/ssa (fork of x/tools go/ssa/interp) emitting SMT-LIB2 QF_BV to z3 5.1 (z3-new); stateless DFS over decision prefixes; native replay of counterexamples and witnesses via go test -overlay"}],
 "checks":checks,
 "not_applicable":na,
 "notes":"Every check re-loads /repo's working tree with go/packages, rebuilds SSA and re-executes the real functions symbolically. Exit 0 = all assertions unsat on all paths within the stated bounds and all cover points reached; 1 = counterexample reproduced natively (VIOLATION line); 2 = inconclusive (solver unknown, unsupported construct, budget, vacuity, failed replay)."}
json.dump(m,open('/verif/MANIFEST.json','w'),indent=1)
print(len(checks),'claimed',len(na),'n/a')
