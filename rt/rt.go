// Package rt is the harness runtime of the /verif checks. It is injected into the
// git-bug module as an overlay-only package (never committed to /repo).
//
// Under the symbolic executor (gobmc) most functions below are intrinsics and their
// bodies are not run. Compiled natively (go test -overlay) the bodies replay one
// counterexample or witness: Nondet* return the recorded values in call order.
package rt

import (
	"encoding/json"
	"fmt"
	"os"
	"strconv"
)

type replayValue struct {
	Kind  string `json:"kind"`
	Value uint64 `json:"value"`
}

type replayFile struct {
	Harness string           `json:"harness"`
	Label   string           `json:"label"`
	Kind    string           `json:"kind"`
	Values  []replayValue    `json:"values"`
	Params  map[string]int64 `json:"params"`
}

// control is the panic payload used natively for harness control flow.
type control struct {
	what  string
	label string
}

var (
	replay   *replayFile
	pos      int
	observed []string
	covers   []string
	mapOrder int
)

func load() {
	if replay != nil {
		return
	}
	replay = &replayFile{}
	p := os.Getenv("VERIF_REPLAY")
	if p == "" {
		panic(control{what: "noreplay"})
	}
	data, err := os.ReadFile(p)
	if err != nil {
		panic(control{what: "noreplay", label: err.Error()})
	}
	if err := json.Unmarshal(data, replay); err != nil {
		panic(control{what: "noreplay", label: err.Error()})
	}
}

func next(kind string) uint64 {
	load()
	if pos >= len(replay.Values) {
		panic(control{what: "exhausted"})
	}
	v := replay.Values[pos]
	pos++
	return v.Value
}

// Symbolic reports whether the harness runs under the symbolic executor.
func Symbolic() bool { return false }

func NondetBool() bool     { return next("bool")&1 == 1 }
func NondetByte() byte     { return byte(next("u8")) }
func NondetInt() int       { return int(next("int")) }
func NondetInt32() int32   { return int32(next("i32")) }
func NondetInt64() int64   { return int64(next("i64")) }
func NondetUint32() uint32 { return uint32(next("u32")) }
func NondetUint64() uint64 { return next("u64") }

// Choose returns a value in [0,n); the executor forks over all of them.
func Choose(n int) int {
	v := int(next("choose"))
	if v < 0 || v >= n {
		panic(control{what: "assume"})
	}
	return v
}

// NondetString returns a string of length 0..maxLen with arbitrary bytes.
func NondetString(maxLen int) string {
	n := Choose(maxLen + 1)
	b := make([]byte, n)
	for i := range b {
		b[i] = NondetByte()
	}
	return string(b)
}

// NondetBytes returns n arbitrary bytes.
func NondetBytes(n int) []byte {
	b := make([]byte, n)
	for i := range b {
		b[i] = NondetByte()
	}
	return b
}

// NondetStringN returns a string of exactly n arbitrary bytes.
func NondetStringN(n int) string { return string(NondetBytes(n)) }

// Assume prunes the path when cond is false.
func Assume(cond bool) {
	if !cond {
		panic(control{what: "assume"})
	}
}

// Assert states the property.
func Assert(cond bool, label string) {
	if !cond {
		panic(control{what: "assert", label: label})
	}
}

// Cover is a reachability witness.
func Cover(label string) { covers = append(covers, label) }

// Observe records a value for encoder validation.
func Observe(label string, v any) {
	observed = append(observed, label+"="+render(v))
}

func render(v any) string {
	switch x := v.(type) {
	case string:
		return strconv.Quote(x)
	case []byte:
		return strconv.Quote(string(x))
	case nil:
		return "<nil>"
	}
	return fmt.Sprint(v)
}

// Param returns a per-tier bound.
func Param(name string, def int) int {
	if s := os.Getenv("VERIF_PARAM_" + name); s != "" {
		if n, err := strconv.Atoi(s); err == nil {
			return n
		}
	}
	return def
}

// MapOrder selects the map iteration policy of the executor (0 insertion, 1 reverse).
func MapOrder(policy int) { mapOrder = policy }

// Concrete forks over the values of x in [lo,hi] (identity natively).
func Concrete(x, lo, hi int) int {
	if x < lo || x > hi {
		panic(control{what: "assume"})
	}
	return x
}

// Ite selects without forking.
func Ite(c bool, a, b int) int {
	if c {
		return a
	}
	return b
}

// IteU64 selects without forking.
func IteU64(c bool, a, b uint64) uint64 {
	if c {
		return a
	}
	return b
}

// And, Or, Not, Implies combine conditions without forking the exploration (plain
// boolean operators natively).
func And(a, b bool) bool     { return a && b }
func Or(a, b bool) bool      { return a || b }
func Not(a bool) bool        { return !a }
func Implies(a, b bool) bool { return !a || b }

// IdByte reports whether c is in the id alphabet [0-9a-z] (one condition, no fork).
func IdByte(c byte) bool {
	return Or(And(c >= '0', c <= '9'), And(c >= 'a', c <= 'z'))
}

// OnSortSlice registers f to be called with the slice right after the next sort.Slice
// has sorted it (executor only; a no-op natively, where the harness observes the effect
// of the whole function instead).
func OnSortSlice(f func(sorted any)) {}

// EndPath ends the current path normally (executor only; natively a no-op).
func EndPath() {}

// Debug prints values while a harness is being developed (no-op natively).
func Debug(label string, v ...any) {}

// Unsupported marks a harness path the executor must report as inconclusive.
func Unsupported(why string) { panic(control{what: "unsupported", label: why}) }

func isControl(v any) bool {
	_, ok := v.(control)
	return ok
}

// Try runs f and reports a panic of the code under test.
func Try(f func()) (panicked bool, val any) {
	defer func() {
		if r := recover(); r != nil {
			if isControl(r) {
				panic(r)
			}
			panicked = true
			val = r
		}
	}()
	f()
	return
}

// RunReplay runs a harness natively under the recorded values and prints the verdict
// lines the executor parses.
func RunReplay(h func()) {
	verdict := "ok"
	detail := ""
	func() {
		defer func() {
			if r := recover(); r != nil {
				if c, ok := r.(control); ok {
					verdict = c.what
					detail = c.label
					return
				}
				verdict = "panic"
				detail = fmt.Sprint(r)
			}
		}()
		h()
	}()
	for _, o := range observed {
		fmt.Printf("REPLAY-OBSERVE %s\n", o)
	}
	for _, c := range covers {
		fmt.Printf("REPLAY-COVER %s\n", c)
	}
	fmt.Printf("REPLAY-VERDICT %s %s\n", verdict, strconv.Quote(detail))
}
