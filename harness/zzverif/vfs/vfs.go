// Package vfs is M-FS of DESIGN.md: an in-memory billy.Filesystem whose files are byte
// strings. OpenFile(O_TRUNC) empties at once, Write appends, Rename is atomic. A
// mutation log and an optional crash budget serve the frame and crash-point checks.
package vfs

import (
	"io"
	"os"
	"path"
	"sort"
	"strings"
	"sync"
	"time"

	"github.com/go-git/go-billy/v5"
)

type FS struct {
	mu    sync.Mutex
	Files map[string][]byte
	Dirs  map[string]bool
	Log   []string // mutating calls: "write <path>", "remove <path>", "rename a b", "truncate <path>"
	// CrashAfter >= 0: the process dies when that many mutations have been performed
	// (the next mutating call panics with Crash{}); -1 = never.
	CrashAfter int
	Mutations  int
	// Torn > 0: when the crash point falls on a file write of more than Torn bytes, the
	// first Torn bytes of it reach the file before the process dies (a torn write).
	Torn   int
	Prefix string // chroot prefix
	parent     *FS
}

type Crash struct{}

func New() *FS {
	return &FS{Files: map[string][]byte{}, Dirs: map[string]bool{}, CrashAfter: -1}
}

func (fs *FS) root() *FS {
	for fs.parent != nil {
		fs = fs.parent
	}
	return fs
}

func (fs *FS) abs(p string) string {
	p = path.Clean("/" + fs.Prefix + "/" + p)
	return strings.TrimPrefix(p, "/")
}

func (fs *FS) mutate(what string) {
	r := fs.root()
	if r.CrashAfter >= 0 && r.Mutations >= r.CrashAfter {
		panic(Crash{})
	}
	r.Mutations++
	r.Log = append(r.Log, what)
}

type file struct {
	fs     *FS
	name   string
	off    int
	closed bool
	write  bool
}

func (fs *FS) Create(filename string) (billy.File, error) {
	return fs.OpenFile(filename, os.O_RDWR|os.O_CREATE|os.O_TRUNC, 0666)
}

func (fs *FS) Open(filename string) (billy.File, error) {
	return fs.OpenFile(filename, os.O_RDONLY, 0)
}

func (fs *FS) OpenFile(filename string, flag int, perm os.FileMode) (billy.File, error) {
	m := &fs.root().mu
	m.Lock()
	defer m.Unlock()
	r := fs.root()
	p := fs.abs(filename)
	_, exists := r.Files[p]
	if !exists {
		if flag&os.O_CREATE == 0 {
			return nil, &os.PathError{Op: "open", Path: filename, Err: os.ErrNotExist}
		}
		fs.mutate("create " + p)
		r.Files[p] = []byte{}
	} else if flag&os.O_TRUNC != 0 {
		fs.mutate("truncate " + p)
		r.Files[p] = []byte{}
	}
	f := &file{fs: fs, name: p, write: flag&(os.O_WRONLY|os.O_RDWR) != 0}
	if flag&os.O_APPEND != 0 {
		f.off = len(r.Files[p])
	}
	return f, nil
}

func (fs *FS) Stat(filename string) (os.FileInfo, error) {
	m := &fs.root().mu
	m.Lock()
	defer m.Unlock()
	r := fs.root()
	p := fs.abs(filename)
	if c, ok := r.Files[p]; ok {
		return info{name: path.Base(p), size: int64(len(c))}, nil
	}
	if r.Dirs[p] || p == "" {
		return info{name: path.Base(p), dir: true}, nil
	}
	for k := range r.Files {
		if strings.HasPrefix(k, p+"/") {
			return info{name: path.Base(p), dir: true}, nil
		}
	}
	return nil, &os.PathError{Op: "stat", Path: filename, Err: os.ErrNotExist}
}

func (fs *FS) Lstat(filename string) (os.FileInfo, error) { return fs.Stat(filename) }

func (fs *FS) Rename(oldpath, newpath string) error {
	m := &fs.root().mu
	m.Lock()
	defer m.Unlock()
	r := fs.root()
	o, n := fs.abs(oldpath), fs.abs(newpath)
	c, ok := r.Files[o]
	if !ok {
		return &os.PathError{Op: "rename", Path: oldpath, Err: os.ErrNotExist}
	}
	fs.mutate("rename " + o + " " + n)
	delete(r.Files, o)
	r.Files[n] = c
	return nil
}

func (fs *FS) Remove(filename string) error {
	m := &fs.root().mu
	m.Lock()
	defer m.Unlock()
	r := fs.root()
	p := fs.abs(filename)
	if _, ok := r.Files[p]; ok {
		fs.mutate("remove " + p)
		delete(r.Files, p)
		return nil
	}
	if r.Dirs[p] {
		fs.mutate("remove " + p)
		delete(r.Dirs, p)
		return nil
	}
	return &os.PathError{Op: "remove", Path: filename, Err: os.ErrNotExist}
}

// RemoveAll is what billy/util.RemoveAll resolves to for filesystems that provide it.
func (fs *FS) RemoveAll(filename string) error {
	m := &fs.root().mu
	m.Lock()
	defer m.Unlock()
	r := fs.root()
	p := fs.abs(filename)
	var victims []string
	for k := range r.Files {
		if k == p || strings.HasPrefix(k, p+"/") || p == "" {
			victims = append(victims, k)
		}
	}
	sort.Strings(victims)
	for _, k := range victims {
		fs.mutate("remove " + k)
		delete(r.Files, k)
	}
	for k := range r.Dirs {
		if k == p || strings.HasPrefix(k, p+"/") || p == "" {
			delete(r.Dirs, k)
		}
	}
	return nil
}

func (fs *FS) Join(elem ...string) string { return path.Join(elem...) }

func (fs *FS) TempFile(dir, prefix string) (billy.File, error) {
	return fs.OpenFile(path.Join(dir, prefix+"tmp"), os.O_RDWR|os.O_CREATE|os.O_TRUNC, 0600)
}

func (fs *FS) ReadDir(p string) ([]os.FileInfo, error) {
	m := &fs.root().mu
	m.Lock()
	defer m.Unlock()
	r := fs.root()
	d := fs.abs(p)
	seen := map[string]bool{}
	var out []os.FileInfo
	var names []string
	for k := range r.Files {
		names = append(names, k)
	}
	sort.Strings(names)
	for _, k := range names {
		rel := k
		if d != "" {
			if !strings.HasPrefix(k, d+"/") {
				continue
			}
			rel = k[len(d)+1:]
		}
		if i := strings.IndexByte(rel, '/'); i >= 0 {
			if !seen[rel[:i]] {
				seen[rel[:i]] = true
				out = append(out, info{name: rel[:i], dir: true})
			}
			continue
		}
		out = append(out, info{name: rel, size: int64(len(r.Files[k]))})
	}
	return out, nil
}

func (fs *FS) MkdirAll(filename string, perm os.FileMode) error {
	m := &fs.root().mu
	m.Lock()
	defer m.Unlock()
	fs.root().Dirs[fs.abs(filename)] = true
	return nil
}

func (fs *FS) Symlink(target, link string) error { return billy.ErrNotSupported }
func (fs *FS) Readlink(link string) (string, error) { return "", billy.ErrNotSupported }

func (fs *FS) Chroot(p string) (billy.Filesystem, error) {
	return &FS{Prefix: fs.abs(p), parent: fs, CrashAfter: -1}, nil
}

func (fs *FS) Root() string { return "/" + fs.Prefix }

func (f *file) Name() string { return f.name }

func (f *file) Write(p []byte) (int, error) {
	m := &f.fs.root().mu
	m.Lock()
	defer m.Unlock()
	if f.closed {
		return 0, os.ErrClosed
	}
	r := f.fs.root()
	if r.CrashAfter >= 0 && r.Mutations >= r.CrashAfter && r.Torn > 0 && r.Torn < len(p) {
		// torn write: a prefix reaches the file, then the process dies
		c := r.Files[f.name]
		if f.off > len(c) {
			f.off = len(c)
		}
		nc := append(append([]byte{}, c[:f.off]...), p[:r.Torn]...)
		r.Files[f.name] = nc
		r.Log = append(r.Log, "torn write "+f.name)
		panic(Crash{})
	}
	f.fs.mutate("write " + f.name)
	c := r.Files[f.name]
	if f.off > len(c) {
		f.off = len(c)
	}
	nc := make([]byte, 0, f.off+len(p))
	nc = append(nc, c[:f.off]...)
	nc = append(nc, p...)
	if f.off+len(p) < len(c) {
		nc = append(nc, c[f.off+len(p):]...)
	}
	r.Files[f.name] = nc
	f.off += len(p)
	return len(p), nil
}

func (f *file) Read(p []byte) (int, error) {
	m := &f.fs.root().mu
	m.Lock()
	defer m.Unlock()
	if f.closed {
		return 0, os.ErrClosed
	}
	c := f.fs.root().Files[f.name]
	if f.off >= len(c) {
		return 0, io.EOF
	}
	n := copy(p, c[f.off:])
	f.off += n
	return n, nil
}

func (f *file) ReadAt(p []byte, off int64) (int, error) {
	m := &f.fs.root().mu
	m.Lock()
	defer m.Unlock()
	c := f.fs.root().Files[f.name]
	if int(off) >= len(c) {
		return 0, io.EOF
	}
	n := copy(p, c[off:])
	if n < len(p) {
		return n, io.EOF
	}
	return n, nil
}

func (f *file) Seek(offset int64, whence int) (int64, error) {
	m := &f.fs.root().mu
	m.Lock()
	defer m.Unlock()
	c := f.fs.root().Files[f.name]
	switch whence {
	case io.SeekStart:
		f.off = int(offset)
	case io.SeekCurrent:
		f.off += int(offset)
	case io.SeekEnd:
		f.off = len(c) + int(offset)
	}
	return int64(f.off), nil
}

func (f *file) Close() error {
	if f.closed {
		return os.ErrClosed
	}
	f.closed = true
	return nil
}

func (f *file) Lock() error   { return nil }
func (f *file) Unlock() error { return nil }

func (f *file) Truncate(size int64) error {
	m := &f.fs.root().mu
	m.Lock()
	defer m.Unlock()
	r := f.fs.root()
	f.fs.mutate("truncate " + f.name)
	c := r.Files[f.name]
	if int(size) < len(c) {
		r.Files[f.name] = c[:size]
	}
	return nil
}

type info struct {
	name string
	size int64
	dir  bool
}

func (i info) Name() string { return i.name }
func (i info) Size() int64  { return i.size }
func (i info) Mode() os.FileMode {
	if i.dir {
		return os.ModeDir | 0755
	}
	return 0644
}
func (i info) ModTime() time.Time { return time.Time{} }
func (i info) IsDir() bool        { return i.dir }
func (i info) Sys() interface{}   { return nil }
