// Package vreg is the registry behind M-PACK of DESIGN.md: ids of blobs are an
// uninterpreted injective function of the blob, realised as a table token -> id.
package vreg

// BlobIds maps an opaque blob (its bytes as a string) to the id DeriveId returns.
var BlobIds = map[string]string{}

func Reset() { BlobIds = map[string]string{} }
