// Package vreg is the registry behind M-PACK of DESIGN.md: ids of blobs are an
// uninterpreted injective function of the blob, realised as a table token -> id.
package vreg

import "sync"

// Mu guards BlobIds and the M-PACK tables of the packages that register blobs: the real
// code reads and writes entities from several goroutines (the cache builds its sub-caches
// in parallel), so the stubs must be safe for concurrent use natively.
var Mu sync.Mutex

// BlobIds maps an opaque blob (its bytes as a string) to the id DeriveId returns.
var BlobIds = map[string]string{}

func Reset() {
	Mu.Lock()
	defer Mu.Unlock()
	BlobIds = map[string]string{}
}
