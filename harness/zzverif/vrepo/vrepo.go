// Package vrepo is M-REPO of DESIGN.md: a model of repository.ClockedRepo.
//
// Commits, trees and blobs live in tables keyed by counter-generated hashes; refs in an
// ordered list; clocks are real lamport.PersistedClock objects over the model
// filesystem (as GoGitRepo does); ListCommits is the real nonNativeListCommits. Every
// mutating call is logged (frame conditions) and can be made the crash point.
package vrepo

import (
	"fmt"
	"io"
	"strings"
	"sync"

	"github.com/99designs/keyring"
	"github.com/ProtonMail/go-crypto/openpgp"

	"github.com/MichaelMure/git-bug/repository"
	"github.com/MichaelMure/git-bug/util/lamport"
	"github.com/MichaelMure/git-bug/zzverif/vfs"
)

type CommitRec struct {
	Parents []repository.Hash
	Tree    repository.Hash
	Signed  bool
	SigOK   bool // M-PGP verdict for this commit (when Signer is nil)
	Signer  *openpgp.Entity // who signed (StoreSignedCommit); M-PGP: verifies iff in the keyring
}

type Ref struct {
	Name string
	Hash repository.Hash
}

type Crash struct{}

type Repo struct {
	mu    sync.Mutex // the real back ends are safe for concurrent use; so is the model
	Blobs   map[repository.Hash][]byte
	Trees   map[repository.Hash][]repository.TreeEntry
	Commits map[repository.Hash]*CommitRec
	Refs    []Ref
	Remotes map[string]string
	FS      *vfs.FS
	gogit   *repository.GoGitRepo // real clock code (clocks map + local storage only)
	local   repository.Config // MemConfig unless a harness installs another implementation
	global  *repository.MemConfig
	Indexes map[string]*Index
	Keys    *Keyring

	next int
	Log  []string // mutating calls, e.g. "UpdateRef refs/bugs/x c3"
	// CrashAfter >= 0: the call that would be mutation number CrashAfter panics with
	// Crash{} instead of being performed.
	CrashAfter int
	Mutations  int
	ReverseRefs bool // ListRefs enumeration order
	OnClose    func() // observation hook: called when the repository is closed
	UserName   string
	UserEmail  string
	FetchOut   string // answer of FetchRefs
	Fetches    int
}

func New() *Repo {
	return &Repo{
		Blobs:      map[repository.Hash][]byte{},
		Trees:      map[repository.Hash][]repository.TreeEntry{},
		Commits:    map[repository.Hash]*CommitRec{},
		Remotes:    map[string]string{},
		FS:         vfs.New(),
		local:      repository.NewMemConfig(),
		global:     repository.NewMemConfig(),
		Indexes:    map[string]*Index{},
		Keys:       &Keyring{Items: map[string]keyring.Item{}},
		CrashAfter: -1,
	}
}

func (r *Repo) mutate(what string) {
	if r.CrashAfter >= 0 && r.Mutations >= r.CrashAfter {
		panic(Crash{})
	}
	r.Mutations++
	r.Log = append(r.Log, what)
}

func (r *Repo) newHash(kind byte) repository.Hash {
	r.next++
	return repository.Hash(fmt.Sprintf("%c%039x", kind, r.next))
}

// Restart models a process restart: in-memory clock objects are dropped (they are
// reloaded from the clock files on demand), everything stored stays.
func (r *Repo) Restart() {
	r.gogit = nil
	r.CrashAfter = -1
	r.FS.CrashAfter = -1
}

// ---- RepoConfig / Keyring / Common / Storage / Index ----

func (r *Repo) LocalConfig() repository.Config      { return r.local }

// UseLocalConfig installs another implementation of the local configuration (the real
// go-git backed one over an in-memory store, in the wipe harness).
func (r *Repo) UseLocalConfig(c repository.Config) { r.local = c }
func (r *Repo) GlobalConfig() repository.Config     { return r.global }
func (r *Repo) AnyConfig() repository.ConfigRead    { return r.local }
func (r *Repo) Keyring() repository.Keyring         { return r.Keys }
func (r *Repo) GetUserName() (string, error)        { return r.UserName, nil }
func (r *Repo) GetUserEmail() (string, error)       { return r.UserEmail, nil }
func (r *Repo) GetCoreEditor() (string, error)      { return "vi", nil }
func (r *Repo) GetRemotes() (map[string]string, error) {
	r.mu.Lock()
	defer r.mu.Unlock()
	out := map[string]string{}
	for k, v := range r.Remotes {
		out[k] = v
	}
	return out, nil
}
func (r *Repo) LocalStorage() repository.LocalStorage { return r.FS }
func (r *Repo) Close() error {
	if r.OnClose != nil {
		r.OnClose()
	}
	return nil
}

func (r *Repo) GetIndex(name string) (repository.Index, error) {
	r.mu.Lock()
	defer r.mu.Unlock()
	ix, ok := r.Indexes[name]
	if !ok {
		ix = &Index{repo: r, name: name, Docs: map[string][]string{}}
		r.Indexes[name] = ix
	}
	return ix, nil
}

// Index is M-INDEX: exact document-set semantics.
type Index struct {
	repo *Repo
	name string
	Docs map[string][]string
	Order []string
}

func (ix *Index) IndexOne(id string, texts []string) error {
	ix.repo.mu.Lock()
	defer ix.repo.mu.Unlock()
	ix.repo.mutate("IndexOne " + ix.name + " " + id)
	if _, ok := ix.Docs[id]; !ok {
		ix.Order = append(ix.Order, id)
	}
	ix.Docs[id] = append([]string(nil), texts...)
	return nil
}

func (ix *Index) IndexBatch() (func(id string, texts []string) error, func() error) {
	return func(id string, texts []string) error { return ix.IndexOne(id, texts) }, func() error { return nil }
}

func (ix *Index) Search(terms []string) ([]string, error) {
	ix.repo.mu.Lock()
	defer ix.repo.mu.Unlock()
	var out []string
	for _, id := range ix.Order {
		texts, ok := ix.Docs[id]
		if !ok {
			continue
		}
		all := true
		for _, t := range terms {
			found := false
			for _, tx := range texts {
				if strings.Contains(strings.ToLower(tx), strings.ToLower(t)) {
					found = true
				}
			}
			if !found {
				all = false
			}
		}
		if all {
			out = append(out, id)
		}
	}
	return out, nil
}

func (ix *Index) DocCount() (uint64, error) { return uint64(len(ix.Docs)), nil }

func (ix *Index) Remove(id string) error {
	ix.repo.mu.Lock()
	defer ix.repo.mu.Unlock()
	ix.repo.mutate("IndexRemove " + ix.name + " " + id)
	delete(ix.Docs, id)
	return nil
}

func (ix *Index) Clear() error {
	ix.repo.mu.Lock()
	defer ix.repo.mu.Unlock()
	ix.repo.mutate("IndexClear " + ix.name)
	ix.Docs = map[string][]string{}
	ix.Order = nil
	return nil
}

func (ix *Index) Close() error { return nil }

// Keyring is an in-memory keyring.
type Keyring struct {
	Items map[string]keyring.Item
}

func (k *Keyring) Get(key string) (keyring.Item, error) {
	it, ok := k.Items[key]
	if !ok {
		return keyring.Item{}, keyring.ErrKeyNotFound
	}
	return it, nil
}
func (k *Keyring) Set(item keyring.Item) error { k.Items[item.Key] = item; return nil }
func (k *Keyring) Remove(key string) error     { delete(k.Items, key); return nil }
func (k *Keyring) Keys() ([]string, error) {
	var out []string
	for key := range k.Items {
		out = append(out, key)
	}
	return out, nil
}

// ---- RepoData ----

// FetchRefs: a fetch is modelled by the harness setting the remote-tracking refs; the call
// itself brings nothing more and answers FetchOut (what go-git says then is
// "already up-to-date").
func (r *Repo) FetchRefs(remote string, prefixes ...string) (string, error) {
	r.Fetches++
	return r.FetchOut, nil
}
func (r *Repo) PushRefs(remote string, prefixes ...string) (string, error) {
	return "", nil
}

func (r *Repo) StoreData(data []byte) (repository.Hash, error) {
	r.mu.Lock()
	defer r.mu.Unlock()
	r.mutate("StoreData")
	h := r.newHash('b')
	r.Blobs[h] = append([]byte(nil), data...)
	return h, nil
}

func (r *Repo) ReadData(hash repository.Hash) ([]byte, error) {
	r.mu.Lock()
	defer r.mu.Unlock()
	d, ok := r.Blobs[hash]
	if !ok {
		return nil, fmt.Errorf("unknown hash")
	}
	return d, nil
}

func (r *Repo) StoreTree(entries []repository.TreeEntry) (repository.Hash, error) {
	r.mu.Lock()
	defer r.mu.Unlock()
	r.mutate("StoreTree")
	h := r.newHash('e')
	r.Trees[h] = append([]repository.TreeEntry(nil), entries...)
	return h, nil
}

func (r *Repo) ReadTree(hash repository.Hash) ([]repository.TreeEntry, error) {
	r.mu.Lock()
	defer r.mu.Unlock()
	if t, ok := r.Trees[hash]; ok {
		return t, nil
	}
	// like the real backends: a commit hash resolves to its tree
	if c, ok := r.Commits[hash]; ok {
		if t, ok := r.Trees[c.Tree]; ok {
			return t, nil
		}
	}
	return nil, fmt.Errorf("unknown hash")
}

func (r *Repo) StoreCommit(treeHash repository.Hash, parents ...repository.Hash) (repository.Hash, error) {
	return r.storeCommit(treeHash, false, parents)
}

func (r *Repo) StoreSignedCommit(treeHash repository.Hash, signKey *openpgp.Entity, parents ...repository.Hash) (repository.Hash, error) {
	h, err := r.storeCommit(treeHash, true, parents)
	if err == nil {
		r.mu.Lock()
		r.Commits[h].Signer = signKey
		r.mu.Unlock()
	}
	return h, err
}

func (r *Repo) storeCommit(treeHash repository.Hash, signed bool, parents []repository.Hash) (repository.Hash, error) {
	r.mu.Lock()
	defer r.mu.Unlock()
	r.mutate("StoreCommit")
	h := r.newHash('c')
	r.Commits[h] = &CommitRec{Parents: append([]repository.Hash(nil), parents...), Tree: treeHash, Signed: signed, SigOK: signed}
	return h, nil
}

// AddCommit inserts a commit directly (harness construction of arbitrary histories).
func (r *Repo) AddCommit(tree repository.Hash, parents ...repository.Hash) repository.Hash {
	r.mu.Lock()
	defer r.mu.Unlock()
	h := r.newHash('c')
	r.Commits[h] = &CommitRec{Parents: append([]repository.Hash(nil), parents...), Tree: tree}
	return h
}

// AddTree / AddBlob insert objects without logging (harness construction).
func (r *Repo) AddTree(entries []repository.TreeEntry) repository.Hash {
	r.mu.Lock()
	defer r.mu.Unlock()
	h := r.newHash('e')
	r.Trees[h] = entries
	return h
}

func (r *Repo) AddBlob(data []byte) repository.Hash {
	r.mu.Lock()
	defer r.mu.Unlock()
	h := r.newHash('b')
	r.Blobs[h] = data
	return h
}

type sigReader struct {
	ok     bool
	signer *openpgp.Entity
}

func (s *sigReader) Read(p []byte) (int, error) { return 0, io.EOF }

// VHVerdict is what M-PGP answers for a commit carrying this signature.
func (s *sigReader) VHVerdict() bool { return s.ok }

// VHVerdictFor is what M-PGP answers when the signature is checked against keyring: a
// signature made by StoreSignedCommit verifies iff its signer is in the keyring; a
// signature injected by a harness (no signer) verifies as the harness said.
func (s *sigReader) VHVerdictFor(keyring openpgp.EntityList) bool {
	if s.signer == nil {
		return s.ok
	}
	for _, e := range keyring {
		if e == s.signer {
			return true
		}
	}
	return false
}

func (r *Repo) ReadCommit(hash repository.Hash) (repository.Commit, error) {
	r.mu.Lock()
	defer r.mu.Unlock()
	c, ok := r.Commits[hash]
	if !ok {
		return repository.Commit{}, fmt.Errorf("unknown commit")
	}
	res := repository.Commit{Hash: hash, Parents: c.Parents, TreeHash: c.Tree}
	if c.Signed {
		res.SignedData = &sigReader{c.SigOK, c.Signer}
		res.Signature = &sigReader{c.SigOK, c.Signer}
	}
	return res, nil
}

func (r *Repo) findRef(name string) int {
	for i := range r.Refs {
		if r.Refs[i].Name == name {
			return i
		}
	}
	return -1
}

func (r *Repo) ResolveRef(ref string) (repository.Hash, error) {
	r.mu.Lock()
	defer r.mu.Unlock()
	if i := r.findRef(ref); i >= 0 {
		return r.Refs[i].Hash, nil
	}
	return "", repository.ErrNotFound
}

func (r *Repo) UpdateRef(ref string, hash repository.Hash) error {
	r.mu.Lock()
	defer r.mu.Unlock()
	r.mutate("UpdateRef " + ref + " " + string(hash))
	r.SetRef(ref, hash)
	return nil
}

// SetRef sets a ref without logging (harness construction, model of a fetch).
func (r *Repo) SetRef(ref string, hash repository.Hash) {
	if i := r.findRef(ref); i >= 0 {
		r.Refs[i].Hash = hash
		return
	}
	r.Refs = append(r.Refs, Ref{ref, hash})
}

func (r *Repo) RemoveRef(ref string) error {
	r.mu.Lock()
	defer r.mu.Unlock()
	r.mutate("RemoveRef " + ref)
	if i := r.findRef(ref); i >= 0 {
		r.Refs = append(r.Refs[:i:i], r.Refs[i+1:]...)
	}
	return nil
}

func (r *Repo) ListRefs(refPrefix string) ([]string, error) {
	r.mu.Lock()
	defer r.mu.Unlock()
	var out []string
	for _, rf := range r.Refs {
		if strings.HasPrefix(rf.Name, refPrefix) {
			out = append(out, rf.Name)
		}
	}
	if r.ReverseRefs {
		for i, j := 0, len(out)-1; i < j; i, j = i+1, j-1 {
			out[i], out[j] = out[j], out[i]
		}
	}
	return out, nil
}

func (r *Repo) RefExist(ref string) (bool, error) {
	r.mu.Lock()
	defer r.mu.Unlock()
	return r.findRef(ref) >= 0, nil
}

func (r *Repo) CopyRef(source string, dest string) error {
	r.mu.Lock()
	defer r.mu.Unlock()
	i := r.findRef(source)
	if i < 0 {
		return repository.ErrNotFound
	}
	r.mutate("CopyRef " + source + " " + dest)
	r.SetRef(dest, r.Refs[i].Hash)
	return nil
}

func (r *Repo) ListCommits(ref string) ([]repository.Hash, error) {
	return repository.VHListCommits(r, ref)
}

// ---- RepoClock: the real GoGitRepo clock code over the model filesystem ----

func (r *Repo) clockRepo() *repository.GoGitRepo {
	if r.gogit == nil {
		r.gogit = repository.VHNewClockRepo(r.FS)
	}
	return r.gogit
}

func (r *Repo) AllClocks() (map[string]lamport.Clock, error) {
	r.mu.Lock()
	defer r.mu.Unlock()
	// GoGitRepo.AllClocks lists the directory with os.ReadDir; modelled on M-FS
	out := map[string]lamport.Clock{}
	infos, _ := r.FS.ReadDir("clocks")
	for _, fi := range infos {
		c, err := r.clockRepo().VHGetClock(fi.Name())
		if err != nil {
			return nil, err
		}
		out[fi.Name()] = c
	}
	return out, nil
}

// GetClock is GoGitRepo.getClock: load, do not create.
func (r *Repo) GetClock(name string) (lamport.Clock, error) {
	r.mu.Lock()
	defer r.mu.Unlock()
	return r.clockRepo().VHGetClock(name)
}

func (r *Repo) GetOrCreateClock(name string) (lamport.Clock, error) {
	r.mu.Lock()
	defer r.mu.Unlock()
	return r.clockRepo().GetOrCreateClock(name)
}

func (r *Repo) Increment(name string) (lamport.Time, error) {
	r.mu.Lock()
	defer r.mu.Unlock()
	r.mutate("Increment " + name)
	return r.clockRepo().Increment(name)
}

func (r *Repo) Witness(name string, time lamport.Time) error {
	r.mu.Lock()
	defer r.mu.Unlock()
	r.mutate("Witness " + name)
	return r.clockRepo().Witness(name, time)
}

// SetClock forces a clock value (harness construction of an arbitrary clock state).
func (r *Repo) SetClock(name string, t lamport.Time) {
	if err := r.clockRepo().Witness(name, t); err != nil {
		panic(err)
	}
}

// ClockTime returns the current value of a clock (0 if absent or unreadable).
func (r *Repo) ClockTime(name string) lamport.Time {
	c, err := r.clockRepo().VHGetClock(name)
	if err != nil {
		return 0
	}
	return c.Time()
}
