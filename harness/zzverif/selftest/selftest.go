// Package selftest holds micro-harnesses that validate the executor itself
// (Appendix A of DESIGN.md): each is explored symbolically and its witnesses are
// replayed natively with the observations compared.
package selftest

import (
	"sort"
	"strconv"
	"strings"
	"sync"
	"sync/atomic"

	"github.com/MichaelMure/git-bug/zzverif/rt"
)

func abs(x int64) int64 {
	if x < 0 {
		return -x
	}
	return x
}

// VH_ints: wrap-around arithmetic, conversions, shifts.
func VH_ints() {
	x := rt.NondetInt64()
	y := rt.NondetUint64()
	a := abs(x)
	rt.Observe("abs", a)
	rt.Assert(a >= 0 || x == -1<<63, "abs-nonneg-except-min")
	z := uint8(y) + 200
	rt.Observe("z", z)
	if z < 200 {
		rt.Cover("wrapped")
		rt.Assert(uint8(y) >= 56, "wrap-iff")
	}
	s := x >> 3
	rt.Observe("sar", s)
	rt.Assert((x < 0) == (s < 0), "sar-sign")
	u := y << (y & 63)
	rt.Observe("shl", u)
	d := uint64(uint8(y) / 7)
	rt.Observe("div", d)
	rt.Assert(d*7 <= uint64(uint8(y)), "div-bound")
	rt.Cover("end")
}

// VH_intsbad must be violated (used as a twin).
func VH_intsbad() {
	x := rt.NondetInt64()
	rt.Assert(abs(x) >= 0, "abs-nonneg")
}

// VH_strings: symbolic strings through real library code.
func VH_strings() {
	s := rt.NondetString(rt.Param("L", 2))
	rt.Observe("s", s)
	i := strings.IndexByte(s, ':')
	rt.Observe("i", i)
	if i >= 0 {
		rt.Cover("found")
		rt.Assert(s[i] == ':', "indexbyte-points-at")
		for k := 0; k < i; k++ {
			rt.Assert(s[k] != ':', "indexbyte-first")
		}
	} else {
		rt.Assert(!strings.Contains(s, ":"), "contains-agrees")
	}
	t := strings.ToUpper(s)
	rt.Observe("t", t)
	fields := strings.Fields(s)
	rt.Observe("nf", len(fields))
	n, err := strconv.Atoi(s)
	if err == nil {
		rt.Cover("atoi-ok")
		rt.Observe("n", n)
		rt.Assert(n > -1000 && n < 10000, "atoi-range")
	}
	rt.Cover("end")
}

type pair struct {
	k string
	v int
}

// VH_maps: maps, sort.Slice, closures, defer/recover.
func VH_maps() {
	m := map[string]int{}
	a := rt.NondetString(1)
	b := rt.NondetString(1)
	m[a] = 1
	m[b] += 2
	rt.Observe("len", len(m))
	if a == b {
		rt.Assert(m[a] == 3, "same-key")
	} else {
		rt.Assert(m[a] == 1 && m[b] == 2, "diff-key")
	}
	var ps []pair
	for k, v := range m {
		ps = append(ps, pair{k, v})
	}
	sort.Slice(ps, func(i, j int) bool { return ps[i].k < ps[j].k })
	for i := 1; i < len(ps); i++ {
		rt.Assert(ps[i-1].k < ps[i].k, "sorted")
	}
	idx := rt.NondetInt()
	arr := []int{10, 20, 30}
	panicked, _ := rt.Try(func() { _ = arr[idx] })
	rt.Observe("panicked", panicked)
	rt.Assert(panicked == (idx < 0 || idx >= 3), "bounds-panic-iff")
	rt.Cover("end")
}

type shape interface{ area() int }
type sq struct{ s int }
type rect struct{ w, h int }

func (s sq) area() int    { return s.s * s.s }
func (r *rect) area() int { return r.w * r.h }

// VH_iface: interfaces, method values, type switches.
func VH_iface() {
	var sh shape
	w := int(rt.NondetByte())
	if rt.Choose(2) == 0 {
		sh = sq{w}
	} else {
		sh = &rect{w, 2}
	}
	ar := sh.area()
	rt.Observe("area", ar)
	switch v := sh.(type) {
	case sq:
		rt.Assert(ar == v.s*v.s, "sq-area")
		rt.Cover("sq")
	case *rect:
		rt.Assert(ar == 2*w, "rect-area")
		rt.Cover("rect")
	}
	f := sh.area
	rt.Assert(f() == ar, "method-value")
}

// VH_chan: generator-style goroutine pipeline under the deterministic schedule.
func VH_chan() {
	n := rt.Choose(4)
	out := make(chan int)
	go func() {
		defer close(out)
		for i := 0; i < n; i++ {
			out <- i * 2
		}
	}()
	sum := 0
	cnt := 0
	for v := range out {
		sum += v
		cnt++
	}
	rt.Observe("sum", sum)
	rt.Assert(cnt == n, "all-received")
	rt.Assert(sum == n*(n-1), "sum")
	rt.Cover("end")
}

type stBox struct{ n int }

var stMemo sync.Map

// VH_syncmap: state kept behind sync/atomic pointers and in a sync.Map is found again.
func VH_syncmap() {
	var p atomic.Pointer[stBox]
	rt.Assert(p.Load() == nil, "atomic-pointer-starts-nil")
	b := &stBox{n: int(rt.NondetByte())}
	p.Store(b)
	got := p.Load()
	rt.Assert(got == b, "atomic-pointer-keeps-what-was-stored")
	// (atomic.Value puns *Value to *efaceWords: not representable, ends in an engine error)
	k := &stBox{n: 1}
	_, had := stMemo.Load(k)
	rt.Assert(!had, "sync-map-starts-empty")
	stMemo.Store(k, b)
	x, ok := stMemo.Load(k)
	rt.Assert(ok, "sync-map-finds-stored-key")
	if ok {
		rt.Assert(x.(*stBox) == b, "sync-map-returns-stored-value")
	}
	_, ok2 := stMemo.Load(&stBox{n: 1})
	rt.Assert(!ok2, "sync-map-other-key-absent")
	rt.Cover("end")
}
