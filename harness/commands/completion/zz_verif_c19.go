package completion

// C19 — shell completion opens the backend too: each completion helper releases the lock
// when it is done, and a completion refused because another process holds the repository
// leaves that process's lock alone.

import (
	"github.com/spf13/cobra"

	"github.com/MichaelMure/git-bug/cache"
	"github.com/MichaelMure/git-bug/commands/execenv"
	"github.com/MichaelMure/git-bug/util/interrupt"
	"github.com/MichaelMure/git-bug/util/process"
	"github.com/MichaelMure/git-bug/zzverif/rt"
	"github.com/MichaelMure/git-bug/zzverif/vrepo"
)

// VHCompletionWorld prepares a repository with valid cache files, optionally held by a live
// process, and checks a completion function against it.
func VHCompletionWorld(run func(env *execenv.Env) ([]string, cobra.ShellCompDirective)) {
	fx := cache.VHNewFixture()
	execenv.VHSetRepo(fx.Repo)
	interrupt.VHReset()
	c0, err := cache.NewRepoCacheNoEvents(fx.Repo)
	rt.Assume(err == nil)
	rt.Assume(c0.Close() == nil)
	held := rt.Choose(2) == 1
	if held {
		fx.Repo.FS.Files["lock"] = []byte("77")
		process.VHIsRunning = func(pid int) bool { return pid == 77 }
		defer func() { process.VHIsRunning = nil }()
		rt.Cover("held-by-a-live-process")
	} else {
		rt.Cover("free")
	}
	env := execenv.VHNewEnv()
	_, directive := run(env)
	vhCheckLock(fx.Repo, held, directive)
}

func vhCheckLock(r *vrepo.Repo, held bool, directive cobra.ShellCompDirective) {
	buf, locked := r.FS.Files["lock"]
	if held {
		rt.Assert(directive == cobra.ShellCompDirectiveError, "completion-refused-while-another-process-holds-the-repository")
		rt.Assert(locked && string(buf) == "77", "refused-completion-keeps-the-holder-lock")
	} else {
		rt.Assert(!locked, "completion-releases-the-lock")
	}
}

func VH_C19_completion() {
	fns := []func(env *execenv.Env) ValidArgsFunction{Bridge, BridgeAuth, GitRemote, Label, Ls, User, UserForQuery}
	k := rt.Choose(len(fns))
	VHCompletionWorld(func(env *execenv.Env) ([]string, cobra.ShellCompDirective) {
		toComplete := ""
		if k == 4 {
			toComplete = "label:" // Ls only needs the backend for people and labels
		}
		return fns[k](env)(nil, nil, toComplete)
	})
	rt.Observe("helper", k)
}
