package bugcmd

import (
	"github.com/spf13/cobra"

	"github.com/MichaelMure/git-bug/commands/completion"
	"github.com/MichaelMure/git-bug/commands/execenv"
	"github.com/MichaelMure/git-bug/zzverif/rt"
)

// VH_C19_bugcompletion: the bug id / label completion helpers under the same conditions
// as the generic ones (commands/completion).
func VH_C19_bugcompletion() {
	k := rt.Choose(3)
	completion.VHCompletionWorld(func(env *execenv.Env) ([]string, cobra.ShellCompDirective) {
		switch k {
		case 0:
			return BugCompletion(env)(nil, nil, "")
		case 1:
			return BugAndLabelsCompletion(env, true)(nil, nil, "")
		default:
			return BugAndLabelsCompletion(env, false)(nil, nil, "")
		}
	})
	rt.Observe("helper", k)
}
