package commands

// C14 — "Wiping a repository leaves no git-bug ref, git-bug configuration or local
// git-bug storage behind", and touches nothing else. The real runWipe is executed on the
// real RepoCache stack over the model repository.

import (
	"bytes"
	"strings"

	"github.com/MichaelMure/git-bug/cache"
	"github.com/MichaelMure/git-bug/commands/execenv"
	"github.com/MichaelMure/git-bug/entity"
	"github.com/MichaelMure/git-bug/repository"
	"github.com/MichaelMure/git-bug/zzverif/rt"
)

func vhIsGitBugRef(name string) bool {
	if strings.HasPrefix(name, "refs/bugs/") || strings.HasPrefix(name, "refs/identities/") {
		return true
	}
	if strings.HasPrefix(name, "refs/remotes/") {
		// refs/remotes/<remote>/<namespace>/<entity id>; the tracking ref of an ordinary
		// branch called "bugs/feature-x" lives under the same prefix but is not git-bug's
		rest := strings.SplitN(strings.TrimPrefix(name, "refs/remotes/"), "/", 3)
		return len(rest) == 3 && (rest[1] == "bugs" || rest[1] == "identities") && entity.Id(rest[2]).Validate() == nil
	}
	return false
}

// VH_C14_wipe: a repository holding identities, N bugs each of which is local only, local
// and held by a remote, or only fetched from a remote (never merged), git-bug
// configuration (a selected identity or none, a bridge or none), cache and clock files — next to the host
// repository's own branch, tag, remote branch and configuration.
func VH_C14_wipe() {
	n := rt.Param("N", 2)
	kinds := make([]int, n)
	for i := range kinds {
		kinds[i] = rt.Choose(3)
	}
	f := cache.VHNewWipeFixture(kinds)
	r := f.Repo
	if rt.Choose(2) == 1 {
		// the production configuration code (go-git backed) instead of git-bug's MemConfig
		id, _ := r.LocalConfig().ReadString("git-bug.identity")
		r.UseLocalConfig(repository.VHNewGoGitConfig(map[string]string{"git-bug.identity": id}))
		rt.Cover("go-git-config")
	}
	foreign := repository.Hash("f00d000000000000000000000000000000000000")
	r.SetRef("refs/heads/main", foreign)
	r.SetRef("refs/tags/v1", foreign)
	r.SetRef("refs/remotes/origin/main", foreign)
	r.SetRef("refs/remotes/origin/bugs", foreign) // a branch named "bugs" on the remote
	r.SetRef("refs/remotes/origin/bugs/feature-x", foreign)
	r.SetRef("refs/remotes/origin/identities/team", foreign)
	_ = r.LocalConfig().StoreString("user.name", "host user")
	_ = r.LocalConfig().StoreString("core.editor", "vi")
	if rt.Choose(2) == 1 {
		_ = r.LocalConfig().StoreString("git-bug.bridge.b1.target", "github")
		_ = r.LocalConfig().StoreString("git-bug.bridge.b1.token", "x")
		rt.Cover("bridge-configured")
	} else {
		rt.Cover("no-bridge")
	}
	if rt.Choose(2) == 1 {
		// a git-bug setting that is neither the identity nor a bridge (doc: webui.open)
		_ = r.LocalConfig().StoreString("git-bug.webui.open", "false")
		rt.Cover("other-git-bug-setting")
	}
	if rt.Choose(2) == 1 {
		// nobody selected an identity in this clone
		_ = r.LocalConfig().RemoveAll("git-bug.identity")
		rt.Cover("no-identity-selected")
	}

	c, err := cache.NewRepoCacheNoEvents(r)
	rt.Assert(err == nil, "cache-builds")
	if err != nil {
		return
	}
	env := &execenv.Env{Repo: r, Backend: c, Out: &execenv.TestOut{Buffer: &bytes.Buffer{}}, Err: &execenv.TestOut{Buffer: &bytes.Buffer{}}}
	nfiles := len(r.FS.Files)
	rt.Assert(nfiles > 0, "fixture-has-local-storage")

	err = runWipe(env)
	rt.Assert(err == nil, "wipe-succeeds")

	refs, _ := r.ListRefs("refs/")
	kept := 0
	for _, name := range refs {
		rt.Assert(!vhIsGitBugRef(name), "wipe-leaves-no-git-bug-ref")
		if name == "refs/heads/main" || name == "refs/tags/v1" || name == "refs/remotes/origin/main" || name == "refs/remotes/origin/bugs" ||
			name == "refs/remotes/origin/bugs/feature-x" || name == "refs/remotes/origin/identities/team" {
			h, _ := r.ResolveRef(name)
			rt.Assert(h == foreign, "wipe-keeps-foreign-refs")
			kept++
		}
	}
	rt.Assert(kept == 6, "wipe-keeps-foreign-refs")
	all, _ := r.LocalConfig().ReadAll("")
	for k := range all {
		rt.Assert(!strings.HasPrefix(k, "git-bug."), "wipe-leaves-no-git-bug-config")
	}
	rt.Assert(all["user.name"] == "host user" && all["core.editor"] == "vi", "wipe-keeps-foreign-config")
	rt.Assert(len(r.FS.Files) == 0, "wipe-leaves-no-local-storage")
	// the lock is released: the repository can be opened again, and it is empty
	c2, err := cache.NewRepoCacheNoEvents(r)
	rt.Assert(err == nil, "reopen-after-wipe")
	if err == nil {
		rt.Assert(len(c2.Bugs().AllIds()) == 0 && len(c2.Identities().AllIds()) == 0, "nothing-found-after-wipe")
	}
	for _, k := range kinds {
		switch k {
		case 0:
			rt.Cover("local-only")
		case 1:
			rt.Cover("local-and-remote")
		case 2:
			rt.Cover("fetched-only")
		}
	}
	rt.Observe("files-before", nfiles)
}
