package _select

// C13 at the command line: the first argument of a command designates a bug by id or
// prefix; `select` provides a default. The real Resolve runs on the real cache stack: a
// unique prefix gives exactly that bug, an ambiguous prefix is an error listing exactly
// the matching ids (and never silently another bug), a prefix matching nothing falls back
// to the selected bug, if any.

import (
	"github.com/MichaelMure/git-bug/cache"
	"github.com/MichaelMure/git-bug/entity"
	"github.com/MichaelMure/git-bug/zzverif/rt"
)

func VH_C13_select() {
	fx := cache.VHNewPagingFixture(3, 0)
	rc, err := cache.NewRepoCacheNoEvents(fx.Repo)
	rt.Assume(err == nil)
	ids := rc.Bugs().AllIds()
	rt.Assert(len(ids) == 3, "fixture")
	// the fixture's ids share their first seven characters
	hasSelected := rt.Choose(2) == 1
	sel := ids[2]
	if hasSelected {
		rt.Assert(Select(rc, "bugs", sel) == nil, "select")
		rt.Cover("a-bug-is-selected")
	}
	var args []string
	kind := rt.Choose(5)
	target := ids[rt.Choose(2)]
	switch kind {
	case 0:
		args = []string{target.String(), "rest"}
	case 1:
		args = []string{target.String()[:9], "rest"} // unique: the ids differ at character 8
	case 2:
		args = []string{target.String()[:5], "rest"} // shared by all three
	case 3:
		args = []string{"ffff", "rest"}
	default:
		args = nil
	}
	got, rest, err := Resolve[*cache.BugCache](rc, "bug", "bugs", rc.Bugs(), args)
	switch kind {
	case 0, 1:
		rt.Assert(err == nil && got != nil && got.Id() == target, "unique-designation-resolves-to-that-bug")
		rt.Assert(len(rest) == 1 && rest[0] == "rest", "designation-consumed")
		rt.Cover("unique")
	case 2:
		rt.Assert(err != nil && entity.IsErrMultipleMatch(err), "ambiguous-designation-is-an-error")
		if mm, ok := err.(*entity.ErrMultipleMatch); ok {
			rt.Assert(len(mm.Matching) == 3, "ambiguity-lists-exactly-the-matching-ids")
			for _, id := range ids {
				found := false
				for _, m := range mm.Matching {
					if m == id {
						found = true
					}
				}
				rt.Assert(found, "ambiguity-lists-exactly-the-matching-ids")
			}
		}
		rt.Cover("ambiguous")
	default:
		if hasSelected {
			rt.Assert(err == nil && got != nil && got.Id() == sel, "no-designation-falls-back-to-the-selected-bug")
			rt.Assert(len(rest) == len(args), "arguments-untouched-on-fallback")
		} else {
			rt.Assert(err != nil && IsErrNoValidId(err), "no-designation-and-no-selection-is-an-error")
		}
		rt.Cover("fallback")
	}
	rt.Observe("kind", kind)
}
