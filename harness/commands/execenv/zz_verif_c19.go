package execenv

// C19 — "every command releases the lock on success and on failure", and the signal
// handler closes the backend: the real LoadBackend / LoadBackendEnsureUser / CloseBackend
// and the real interrupt cleaner are executed around the real RepoCache on the model
// repository. repository.OpenGoGitRepo is redirected to the model repository (text
// substitution); cobra's contract is applied by the harness: RunE runs only if PreRunE
// succeeded.

import (
	"bytes"
	"errors"

	"github.com/spf13/cobra"

	"github.com/MichaelMure/git-bug/cache"
	"github.com/MichaelMure/git-bug/repository"
	"github.com/MichaelMure/git-bug/util/interrupt"
	"github.com/MichaelMure/git-bug/util/process"
	"github.com/MichaelMure/git-bug/zzverif/rt"
	"github.com/MichaelMure/git-bug/zzverif/vrepo"
)

var vhRepo *vrepo.Repo

func vhOpenRepo(path, namespace string, loaders []repository.ClockLoader) (repository.ClockedRepo, error) {
	return vhRepo, nil
}

func VH_C19_commands() {
	fx := cache.VHNewFixture()
	vhRepo = fx.Repo
	interrupt.VHReset()
	// an earlier command left valid cache files behind
	c0, err := cache.NewRepoCacheNoEvents(fx.Repo)
	rt.Assume(err == nil)
	rt.Assume(c0.Close() == nil)
	if rt.Choose(2) == 1 {
		_ = fx.Repo.LocalConfig().RemoveAll("git-bug.identity")
		rt.Cover("no-identity-selected")
	}
	// another git-bug process may be holding the repository
	held := rt.Choose(2) == 1
	if held {
		fx.Repo.FS.Files["lock"] = []byte("77")
		process.VHIsRunning = func(pid int) bool { return pid == 77 }
		defer func() { process.VHIsRunning = nil }()
		rt.Cover("held-by-a-live-process")
	}
	env := &Env{Out: &TestOut{Buffer: &bytes.Buffer{}}, Err: &TestOut{Buffer: &bytes.Buffer{}}}
	var pre func(*cobra.Command, []string) error
	if rt.Choose(2) == 0 {
		pre = LoadBackend(env)
	} else {
		pre = LoadBackendEnsureUser(env)
		rt.Cover("ensure-user")
	}
	runFails := rt.Choose(2) == 1
	interrupted := rt.Choose(2) == 1
	exited := false
	run := CloseBackend(env, func(cmd *cobra.Command, args []string) error {
		_, locked := fx.Repo.FS.Files["lock"]
		rt.Assert(locked, "lock-held-while-the-command-runs")
		rt.Assert(env.Backend != nil, "backend-available-to-the-command")
		if interrupted {
			// ^C while the command runs: the handler closes the backend and exits
			rt.Assert(interrupt.VHInterrupt(), "interrupt-handler-installed")
			exited = true
			rt.Cover("interrupted")
		}
		if runFails {
			return errors.New("command failed")
		}
		return nil
	})
	perr := pre(nil, nil)
	if perr == nil {
		rerr := run(nil, nil)
		if !exited {
			rt.Assert((rerr != nil) == runFails, "command-error-reported")
		}
		if runFails {
			rt.Cover("command-failed")
		} else {
			rt.Cover("command-succeeded")
		}
	} else {
		rt.Cover("pre-run-failed")
	}
	if held {
		// the command must have been refused, and the holder's lock is not ours to remove
		rt.Assert(perr != nil, "command-refused-while-another-process-holds-the-repository")
		buf, still := fx.Repo.FS.Files["lock"]
		rt.Assert(still && string(buf) == "77", "refused-command-keeps-the-holder-lock")
		return
	}
	_, locked := fx.Repo.FS.Files["lock"]
	rt.Assert(!locked, "lock-released-after-the-command")
	// the next command can open the repository
	c, err := cache.NewRepoCacheNoEvents(fx.Repo)
	rt.Assert(err == nil, "next-command-opens")
	if err == nil {
		_ = c.Close()
	}
}
