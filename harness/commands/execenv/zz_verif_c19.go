package execenv

// C19 — "every command releases the lock on success and on failure", and the signal
// handler closes the backend: the real LoadBackend / LoadBackendEnsureUser / CloseBackend
// and the real interrupt cleaner are executed around the real RepoCache on the model
// repository. repository.OpenGoGitRepo is redirected to the model repository (text
// substitution); cobra's contract is applied by the harness: RunE runs only if PreRunE
// succeeded.

import (
	"bytes"
	"errors"

	"github.com/spf13/cobra"

	"github.com/MichaelMure/git-bug/cache"
	"github.com/MichaelMure/git-bug/repository"
	"github.com/MichaelMure/git-bug/util/interrupt"
	"github.com/MichaelMure/git-bug/util/process"
	"github.com/MichaelMure/git-bug/zzverif/rt"
	"github.com/MichaelMure/git-bug/zzverif/vrepo"
)

var vhRepo *vrepo.Repo
var vhOpenLoaders []repository.ClockLoader
var vhOpenNamespace string

func vhOpenRepo(path, namespace string, loaders []repository.ClockLoader) (repository.ClockedRepo, error) {
	vhOpenLoaders = loaders
	vhOpenNamespace = namespace
	return vhRepo, nil
}

// VHSetRepo lets harnesses of other command packages choose the repository that LoadRepo
// opens.
func VHSetRepo(r *vrepo.Repo) { vhRepo = r }

// VHNewEnv returns an environment with in-memory outputs.
func VHNewEnv() *Env {
	return &Env{Out: &TestOut{Buffer: &bytes.Buffer{}}, Err: &TestOut{Buffer: &bytes.Buffer{}}}
}

// VH_C05_cli: the command line opens the repository in a way that lets it rebuild missing
// clocks: the clock loaders handed to OpenGoGitRepo cover every clock of every entity type
// with Lamport clocks (what OpenGoGitRepo does with them is H_C05_open, what the loaders
// do is H_C05_rebuild), and git-bug's files are rooted at the git-bug namespace (C15).
func VH_C05_cli() {
	fx := cache.VHNewFixture()
	vhRepo = fx.Repo
	vhOpenLoaders = nil
	// an earlier command left valid cache files behind (no cache build, no progress bar)
	c0, err := cache.NewRepoCacheNoEvents(fx.Repo)
	rt.Assume(err == nil)
	rt.Assume(c0.Close() == nil)
	env := &Env{Out: &TestOut{Buffer: &bytes.Buffer{}}, Err: &TestOut{Buffer: &bytes.Buffer{}}}
	var pre func(*cobra.Command, []string) error
	switch rt.Choose(3) {
	case 0:
		pre = LoadRepo(env)
	case 1:
		pre = LoadRepoEnsureUser(env)
	default:
		pre = LoadBackend(env)
		interrupt.VHReset()
	}
	rt.Assert(pre(nil, nil) == nil, "repository-opens")
	rt.Assert(vhOpenNamespace == "git-bug", "local-storage-namespace-is-git-bug")
	for _, clock := range []string{"bugs-create", "bugs-edit"} {
		covered := false
		for _, l := range vhOpenLoaders {
			for _, c := range l.Clocks {
				if c == clock {
					covered = l.Witnesser != nil
				}
			}
		}
		rt.Assert(covered, "cli-opens-the-repository-with-the-clock-loaders")
	}
	if env.Backend != nil {
		_ = env.Backend.Close()
	}
	rt.Cover("opened")
}

func VH_C19_commands() {
	fx := cache.VHNewFixture()
	vhRepo = fx.Repo
	interrupt.VHReset()
	// an earlier command left valid cache files behind
	c0, err := cache.NewRepoCacheNoEvents(fx.Repo)
	rt.Assume(err == nil)
	rt.Assume(c0.Close() == nil)
	if rt.Choose(2) == 1 {
		_ = fx.Repo.LocalConfig().RemoveAll("git-bug.identity")
		rt.Cover("no-identity-selected")
	}
	// another git-bug process may be holding the repository
	held := rt.Choose(2) == 1
	if held {
		fx.Repo.FS.Files["lock"] = []byte("77")
		process.VHIsRunning = func(pid int) bool { return pid == 77 }
		defer func() { process.VHIsRunning = nil }()
		rt.Cover("held-by-a-live-process")
	}
	env := &Env{Out: &TestOut{Buffer: &bytes.Buffer{}}, Err: &TestOut{Buffer: &bytes.Buffer{}}}
	var pre func(*cobra.Command, []string) error
	if rt.Choose(2) == 0 {
		pre = LoadBackend(env)
	} else {
		pre = LoadBackendEnsureUser(env)
		rt.Cover("ensure-user")
	}
	runFails := rt.Choose(2) == 1
	interrupted := rt.Choose(2) == 1
	exited := false
	run := CloseBackend(env, func(cmd *cobra.Command, args []string) error {
		_, locked := fx.Repo.FS.Files["lock"]
		rt.Assert(locked, "lock-held-while-the-command-runs")
		rt.Assert(env.Backend != nil, "backend-available-to-the-command")
		if interrupted {
			// ^C while the command runs: the handler closes the backend and exits
			rt.Assert(interrupt.VHInterrupt(), "interrupt-handler-installed")
			exited = true
			rt.Cover("interrupted")
		}
		if runFails {
			return errors.New("command failed")
		}
		return nil
	})
	perr := pre(nil, nil)
	if perr == nil {
		rerr := run(nil, nil)
		if !exited {
			rt.Assert((rerr != nil) == runFails, "command-error-reported")
		}
		if runFails {
			rt.Cover("command-failed")
		} else {
			rt.Cover("command-succeeded")
		}
	} else {
		rt.Cover("pre-run-failed")
	}
	if held {
		// the command must have been refused, and the holder's lock is not ours to remove
		rt.Assert(perr != nil, "command-refused-while-another-process-holds-the-repository")
		buf, still := fx.Repo.FS.Files["lock"]
		rt.Assert(still && string(buf) == "77", "refused-command-keeps-the-holder-lock")
		return
	}
	_, locked := fx.Repo.FS.Files["lock"]
	rt.Assert(!locked, "lock-released-after-the-command")
	// the next command can open the repository
	c, err := cache.NewRepoCacheNoEvents(fx.Repo)
	rt.Assert(err == nil, "next-command-opens")
	if err == nil {
		_ = c.Close()
	}
}
