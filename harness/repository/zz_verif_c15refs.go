package repository

// C15 — frame condition of fetch and push: the real GoGitRepo.FetchRefs / PushRefs are
// executed from their source; their two calls into go-git's transport (repo.r.Fetch,
// repo.r.Remote + remo.Push) are redirected (text substitution in the overlay copy of
// gogit.go) to the model below, which applies go-git's documented contract:
//
//   - Fetch: every ref the remote advertises that matches the source side of one of the
//     given refspecs is written locally under that refspec's destination (the real
//     config.RefSpec.Match / Dst are executed); in addition, unless FetchOptions.Tags is
//     NoTags, tags of the remote that point into the fetched histories (TagFollowing, the
//     default) or all tags (AllTags) are written locally under refs/tags/.
//   - Push: every local ref matching the source side of a refspec is written on the remote
//     under its destination; for every pushed ref, the remote's fetch refspecs (in memory)
//     determine the local tracking ref that is updated.
//
// The remote is hostile: it advertises refs of every kind, including tags that point into
// the bug histories.

import (
	"strings"

	gogit "github.com/go-git/go-git/v5"
	"github.com/go-git/go-git/v5/config"
	"github.com/go-git/go-git/v5/plumbing"

	"github.com/MichaelMure/git-bug/zzverif/rt"
)

type vhTransport struct {
	remoteRefs   []string // advertised by the remote
	remoteTags   []string // tags of the remote pointing into histories of advertised refs
	localRefs    []string // refs of the local repository (push side)
	remoteCfg    *config.RemoteConfig
	localWrites  []string // refs created or moved in the local repository
	remoteWrites []string // refs created or moved in the remote repository
	fetches      int
	pushes       int
}

var vhT *vhTransport

func vhFetch(o *gogit.FetchOptions) error {
	t := vhT
	t.fetches++
	if len(o.RefSpecs) == 0 {
		// no refspec means the remote's configured fetch refspecs
		o.RefSpecs = t.remoteCfg.Fetch
	}
	for _, rs := range o.RefSpecs {
		if err := rs.Validate(); err != nil {
			return err
		}
	}
	for _, name := range t.remoteRefs {
		for _, rs := range o.RefSpecs {
			if rs.Match(plumbing.ReferenceName(name)) {
				t.localWrites = append(t.localWrites, rs.Dst(plumbing.ReferenceName(name)).String())
			}
		}
	}
	tags := o.Tags
	if tags == gogit.InvalidTagMode {
		tags = gogit.TagFollowing // FetchOptions.Validate
	}
	if tags != gogit.NoTags {
		t.localWrites = append(t.localWrites, t.remoteTags...)
	}
	if len(t.localWrites) == 0 {
		return gogit.NoErrAlreadyUpToDate
	}
	return nil
}

func vhRemote(name string) (*gogit.Remote, error) {
	if name != vhT.remoteCfg.Name {
		return nil, gogit.ErrRemoteNotFound
	}
	return gogit.NewRemote(nil, vhT.remoteCfg), nil
}

func vhPush(remo *gogit.Remote, o *gogit.PushOptions) error {
	t := vhT
	t.pushes++
	if len(o.RefSpecs) == 0 {
		// PushOptions.Validate: no refspec means the default one — every branch
		o.RefSpecs = []config.RefSpec{config.RefSpec(config.DefaultPushRefSpec)}
	}
	for _, rs := range o.RefSpecs {
		if err := rs.Validate(); err != nil {
			return err
		}
	}
	for _, name := range t.localRefs {
		for _, rs := range o.RefSpecs {
			if !rs.Match(plumbing.ReferenceName(name)) {
				continue
			}
			dst := rs.Dst(plumbing.ReferenceName(name))
			t.remoteWrites = append(t.remoteWrites, dst.String())
			// tracking refs follow the remote's fetch refspecs
			for _, fs := range remo.Config().Fetch {
				if fs.Match(dst) {
					t.localWrites = append(t.localWrites, fs.Dst(dst).String())
				}
			}
		}
	}
	if len(t.remoteWrites) == 0 {
		return gogit.NoErrAlreadyUpToDate
	}
	return nil
}

func vhRefWord(max int) string {
	s := rt.NondetString(max)
	rt.Assume(len(s) > 0)
	for k := 0; k < len(s); k++ {
		// a git ref component: here lower-case letters and '-'
		rt.Assume(rt.Or(rt.And(s[k] >= 'a', s[k] <= 'z'), s[k] == '-'))
	}
	return s
}

func vhRefWorld() (prefix, remote string, t *vhTransport) {
	switch rt.Choose(3) {
	case 0:
		prefix = "bugs"
	case 1:
		prefix = "identities"
	default:
		prefix = vhRefWord(rt.Param("L", 2))
		rt.Cover("symbolic-namespace")
	}
	remote = vhRefWord(rt.Param("L", 2))
	id := vhRefWord(rt.Param("L", 2))
	other := vhRefWord(rt.Param("L", 2))
	rt.Assume(other != prefix) // another namespace
	all := []string{
		"refs/" + prefix + "/" + id,
		"refs/heads/" + id,
		"refs/heads/" + prefix + "/" + id,
		"refs/tags/" + id,
		"refs/" + other + "/" + id,
		"refs/" + prefix + id,
		"refs/" + prefix + id + "/" + id,
		"refs/remotes/" + remote + "/" + prefix + "/" + id,
		"refs/remotes/" + remote + "/" + id,
		"HEAD",
	}
	local := all
	if rt.Choose(2) == 1 {
		// nothing of this namespace exists locally (fresh clone, or after a wipe)
		local = all[1:]
		rt.Cover("namespace-empty-locally")
	}
	t = &vhTransport{
		remoteRefs: all,
		remoteTags: []string{"refs/tags/" + id},
		localRefs:  local,
		remoteCfg: &config.RemoteConfig{
			Name:  remote,
			URLs:  []string{"/somewhere"},
			Fetch: []config.RefSpec{config.RefSpec("+refs/heads/*:refs/remotes/" + remote + "/*")},
		},
	}
	vhT = t
	return
}

// VH_C15_fetch: whatever a remote advertises, FetchRefs(remote, ns) creates or moves only
// refs/remotes/<remote>/<ns>/… in the local repository, and it does bring the entity refs.
func VH_C15_fetch() {
	prefix, remote, t := vhRefWorld()
	repo := &GoGitRepo{}
	_, err := repo.FetchRefs(remote, prefix)
	rt.Assert(err == nil, "fetch-no-error")
	rt.Assert(t.fetches == 1, "fetch-called-once")
	frame := "refs/remotes/" + remote + "/" + prefix + "/"
	got := false
	for _, w := range t.localWrites {
		rt.Assert(strings.HasPrefix(w, frame), "fetch-writes-only-tracking-refs-of-the-namespace")
		if w == frame+t.remoteRefs[0][len("refs/"+prefix+"/"):] {
			got = true
		}
	}
	rt.Assert(got, "fetch-brings-the-entity-refs")
	rt.Assert(len(t.remoteWrites) == 0, "fetch-writes-nothing-remotely")
	rt.Observe("writes", len(t.localWrites))
}

// VH_C15_push: PushRefs(remote, ns) writes only refs/<ns>/… on the remote and only
// refs/remotes/<remote>/<ns>/… locally, and leaves the remote's stored fetch
// configuration as it was.
func VH_C15_push() {
	prefix, remote, t := vhRefWorld()
	if rt.Choose(2) == 1 {
		// the tracking refspec is already configured by the user
		t.remoteCfg.Fetch = append(t.remoteCfg.Fetch, config.RefSpec("refs/"+prefix+"/*:refs/remotes/"+remote+"/"+prefix+"/*"))
		rt.Cover("custom-fetch-present")
	}
	repo := &GoGitRepo{}
	_, err := repo.PushRefs(remote, prefix)
	rt.Assert(err == nil, "push-no-error")
	rt.Assert(t.pushes == 1, "push-called-once")
	pushed := false
	for _, w := range t.remoteWrites {
		rt.Assert(strings.HasPrefix(w, "refs/"+prefix+"/"), "push-writes-only-the-namespace-remotely")
		if w == t.remoteRefs[0] {
			pushed = true
		}
	}
	has := len(t.localRefs) == len(t.remoteRefs) // the entity ref exists locally
	if has {
		rt.Assert(pushed, "push-sends-the-entity-refs")
	} else {
		rt.Assert(len(t.remoteWrites) == 0, "push-of-an-empty-namespace-sends-nothing")
	}
	frame := "refs/remotes/" + remote + "/" + prefix + "/"
	tracked := false
	for _, w := range t.localWrites {
		rt.Assert(strings.HasPrefix(w, frame), "push-writes-only-tracking-refs-of-the-namespace")
		tracked = true
	}
	if has {
		rt.Assert(tracked, "push-updates-the-tracking-refs")
	}
	_, err = repo.PushRefs("x"+remote, prefix)
	rt.Assert(err != nil, "push-to-unknown-remote-refused")
	rt.Observe("writes", len(t.remoteWrites))
}
