package repository

// C15 / C14 — git-bug "keeps everything ... in its own configuration section" and "never
// creates, moves or deletes a foreign configuration key": the real go-git backed
// configuration writer and reader (gogit_config.go) are executed on go-git's real
// in-memory configuration structures (plumbing/format/config). Only loading and storing
// the configuration file are redirected (text substitution): the store keeps what go-git's
// encoder would write — a section without options and subsections is not written and so
// no longer exists after the round trip.

import (
	"github.com/go-git/go-git/v5/config"
	format "github.com/go-git/go-git/v5/plumbing/format/config"

	"github.com/MichaelMure/git-bug/zzverif/rt"
)

var vhRaw *format.Config

func vhCloneRaw(c *format.Config) *format.Config {
	out := format.New()
	for _, s := range c.Sections {
		if len(s.Options) == 0 && len(s.Subsections) == 0 {
			continue // the encoder writes nothing for it
		}
		ns := out.Section(s.Name)
		for _, o := range s.Options {
			ns.AddOption(o.Key, o.Value)
		}
		for _, ss := range s.Subsections {
			nss := ns.Subsection(ss.Name)
			for _, o := range ss.Options {
				nss.AddOption(o.Key, o.Value)
			}
		}
	}
	return out
}

func vhCfgGet() (*config.Config, error) {
	c := config.NewConfig()
	c.Raw = vhCloneRaw(vhRaw)
	return c, nil
}

func vhCfgSet(c *config.Config) error {
	vhRaw = vhCloneRaw(c.Raw)
	return nil
}

// vhCfgRepoT stands for the *gogit.Repository of the configuration writer (every
// `cw.repo.` call is redirected to it): Config reads the repository's own file,
// ConfigScoped(GlobalScope / SystemScope) reads it merged over the user's global
// configuration as go-git does, SetConfig writes the repository's own file.
type vhCfgRepoT struct{}

var vhCfgRepo vhCfgRepoT

// the user's ~/.gitconfig
var vhGlobalRaw = func() *format.Config {
	g := format.New()
	g.Section("user").SetOption("email", "global@example.org")
	g.Section("init").SetOption("defaultBranch", "trunk")
	g.Section("url").Subsection("ssh://git@example.org/").SetOption("insteadOf", "https://example.org/")
	return g
}()

func (vhCfgRepoT) Config() (*config.Config, error) { return vhCfgGet() }

func (vhCfgRepoT) SetConfig(c *config.Config) error { return vhCfgSet(c) }

func (vhCfgRepoT) ConfigScoped(scope config.Scope) (*config.Config, error) {
	c, _ := vhCfgGet()
	if scope == config.LocalScope {
		return c, nil
	}
	merged := vhCloneRaw(vhGlobalRaw)
	for _, s := range c.Raw.Sections {
		ns := merged.Section(s.Name)
		for _, o := range s.Options {
			ns.SetOption(o.Key, o.Value)
		}
		for _, ss := range s.Subsections {
			nss := ns.Subsection(ss.Name)
			for _, o := range ss.Options {
				nss.SetOption(o.Key, o.Value)
			}
		}
	}
	c.Raw = merged
	return c, nil
}

type vhCfgKey struct {
	key string
	val string
}

// VH_C15_config: K store / remove steps on git-bug keys, next to foreign sections
// (core, user, a remote, a look-alike section). After every step the foreign keys are as
// before and the git-bug keys read back as the reference map says.
func VH_C15_config() {
	vhRaw = format.New()
	vhRaw.Section("core").SetOption("bare", "false")
	vhRaw.Section("core").SetOption("editor", "vi")
	vhRaw.Section("user").SetOption("name", "host user")
	vhRaw.Section("remote").Subsection("origin").SetOption("url", "/somewhere")
	vhRaw.Section("git-bugs").SetOption("other", "1")
	vhRaw.Section("git").Subsection("bug").SetOption("x", "y")
	foreign := map[string]string{"core.bare": "false", "core.editor": "vi", "user.name": "host user", "remote.origin.url": "/somewhere", "git-bugs.other": "1", "git.bug.x": "y"}

	rd := &goGitConfigReader{getConfig: vhCfgGet}
	wr := &goGitConfigWriter{}
	keys := []string{"git-bug.identity", "git-bug.bridge.b1.target", "git-bug.bridge.b1.token", "git-bug.bridge.b2.target", "git-bug.webui.open"}
	ref := map[string]string{}
	steps := rt.Param("K", 3)
	for s := 0; s < steps; s++ {
		if rt.Choose(2) == 0 {
			k := keys[rt.Choose(len(keys))]
			v := "v" + string(rune('0'+s))
			rt.Assert(wr.StoreString(k, v) == nil, "store-succeeds")
			ref[k] = v
			rt.Cover("store")
		} else {
			prefixes := []string{"git-bug.identity", "git-bug.bridge.b1", "git-bug.bridge.b2", "git-bug.webui", "git-bug"}
			p := prefixes[rt.Choose(len(prefixes))]
			matched := false
			for k := range ref {
				if k == p || (len(k) > len(p) && k[:len(p)] == p && k[len(p)] == '.') {
					delete(ref, k)
					matched = true
				}
			}
			err := wr.RemoveAll(p)
			if matched {
				rt.Assert(err == nil, "remove-of-existing-keys-succeeds")
				rt.Cover("removed")
			} else {
				rt.Assert(err != nil, "remove-of-nothing-is-an-error")
				rt.Cover("nothing-to-remove")
			}
		}
		// frame: foreign keys untouched
		all, err := rd.ReadAll("")
		rt.Assert(err == nil, "read-all")
		for k, v := range foreign {
			rt.Assert(all[k] == v, "foreign-configuration-untouched")
		}
		// effect: exactly the reference keys under git-bug
		n := 0
		for k := range all {
			if len(k) > 8 && k[:8] == "git-bug." {
				n++
			}
		}
		rt.Assert(n == len(ref), "exactly-the-stored-git-bug-keys")
		for _, k := range keys {
			got, err := rd.ReadString(k)
			want, has := ref[k]
			if has {
				rt.Assert(err == nil && got == want, "stored-key-reads-back")
			} else {
				rt.Assert(err != nil, "removed-key-is-gone")
			}
		}
		rt.Assert(len(all) == len(foreign)+len(ref), "no-other-key-appears")
	}
	rt.Observe("keys", len(ref))
}

// VHNewGoGitConfig returns the real go-git backed local configuration (reader and writer
// of gogit_config.go) over a fresh in-memory store holding the given foreign keys
// (section.key or section.subsection.key).
func VHNewGoGitConfig(foreign map[string]string) Config {
	vhRaw = format.New()
	c := &goGitConfig{ConfigRead: &goGitConfigReader{getConfig: vhCfgGet}, ConfigWrite: &goGitConfigWriter{}}
	for k, v := range foreign {
		_ = c.StoreString(k, v)
	}
	return c
}
