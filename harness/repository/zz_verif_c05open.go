package repository

// C05/C06 — the loader decision of the real OpenGoGitRepo: "Those clocks will be checked
// when the repo load. If not present or broken, Witnesser will be used to create them."
//
// OpenGoGitRepo is executed from its own source; only its three calls into the operating
// system and go-git are cut: detectGitPath and defaultKeyring are replaced (rename
// overlay), gogit.PlainOpen and osfs.New are redirected (text substitution in the overlay
// copy of gogit.go, regenerated from /repo on every run) to the functions below, so that
// the local storage is the model filesystem. The go-git repository handle is nil: the
// loader loop never touches it.

import (
	"fmt"

	"github.com/go-git/go-billy/v5"
	gogit "github.com/go-git/go-git/v5"

	"github.com/MichaelMure/git-bug/util/lamport"
	"github.com/MichaelMure/git-bug/zzverif/rt"
	"github.com/MichaelMure/git-bug/zzverif/vfs"
)

var vhOpenFS billy.Filesystem
var vhOpenBase string

func vhPlainOpen(path string) (*gogit.Repository, error) { return nil, nil }

func vhOsfsNew(base string) billy.Filesystem { vhOpenBase = base; return vhOpenFS }

func detectGitPath(path string, depth int) (string, error) { return path, nil }

func defaultKeyring() (Keyring, error) { return nil, nil }

// VH_C05_open: L clock loaders with two clocks each (like every entity type: create and
// edit clock); each clock file is independently missing, valid with an arbitrary value, or
// empty (the state a crash inside PersistedClock.Write leaves). The Witnesser stands for
// the real one (dag.ReadAllClocksNoCheck, decided by H_C05_rebuild): it witnesses the value
// found in the stored entities for every clock of the loader. After OpenGoGitRepo: every
// loader with a missing or broken clock has run, and every clock dominates both what its
// file held and — for the clocks that had to be rebuilt — what the stored entities hold.
func VH_C05_open() {
	fs := vfs.New()
	vhOpenFS = fs
	L := rt.Param("L", 2)
	type clk struct {
		name   string
		state  int // 0 missing, 1 valid, 2 empty file
		file   uint64
		stored uint64 // highest value found in the stored entities
	}
	clocks := make([][]*clk, L)
	ran := make([]int, L)
	loaders := make([]ClockLoader, L)
	for i := 0; i < L; i++ {
		for j := 0; j < 2; j++ {
			c := &clk{name: fmt.Sprintf("ent%d-%d", i, j)}
			c.state = rt.Choose(3)
			c.stored = rt.NondetUint64()
			rt.Assume(c.stored >= 1 && c.stored < ^uint64(0)-4)
			p := "clocks/" + c.name
			switch c.state {
			case 1:
				c.file = rt.NondetUint64()
				// a clock file is never behind the entities it was witnessed from
				rt.Assume(c.file >= c.stored && c.file < ^uint64(0)-4)
				pc, err := lamport.NewPersistedClock(fs, p)
				rt.Assert(err == nil, "seed-clock")
				rt.Assert(pc.Witness(lamport.Time(c.file)) == nil, "seed-witness")
				rt.Cover("valid-file")
			case 2:
				f, err := fs.Create(p)
				rt.Assert(err == nil, "seed-empty")
				_ = f.Close()
				rt.Cover("empty-file")
			default:
				rt.Cover("missing-file")
			}
			clocks[i] = append(clocks[i], c)
		}
		i := i
		loaders[i] = ClockLoader{
			Clocks: []string{clocks[i][0].name, clocks[i][1].name},
			Witnesser: func(repo ClockedRepo) error {
				ran[i]++
				for _, c := range clocks[i] {
					if err := repo.Witness(c.name, lamport.Time(c.stored)); err != nil {
						return err
					}
				}
				return nil
			},
		}
	}

	repo, err := OpenGoGitRepo("/host", "git-bug", loaders)
	rt.Assert(err == nil && repo != nil, "open-succeeds")
	if err != nil || repo == nil {
		return
	}
	// C15: git-bug's files live under <git dir>/git-bug and nowhere else
	rt.Assert(vhOpenBase == "/host/git-bug", "local-storage-rooted-at-git-dir-namespace")
	for i := 0; i < L; i++ {
		needs := clocks[i][0].state != 1 || clocks[i][1].state != 1
		if needs {
			rt.Assert(ran[i] >= 1, "loader-runs-when-a-clock-is-missing-or-broken")
			rt.Cover("loader-needed")
		} else {
			rt.Cover("loader-not-needed")
		}
		for _, c := range clocks[i] {
			// what the next write of this process will see
			lc, err := repo.GetOrCreateClock(c.name)
			rt.Assert(err == nil, "clock-available-after-open")
			if err != nil {
				return
			}
			now := uint64(lc.Time())
			rt.Assert(now >= c.stored, "clock-dominates-stored-entities-after-open")
			if c.state == 1 {
				rt.Assert(now >= c.file, "clock-not-lower-than-its-file-after-open")
			}
			rt.Observe(c.name, now)
		}
	}
}
