package repository

import (
	"os"

	"github.com/MichaelMure/git-bug/zzverif/rt"
)

// gitTreeLess is git's own tree entry order (base_name_compare): bytes are compared up
// to the shorter name; then the next character, where a directory continues with '/' and
// the end of a name is NUL.
func gitTreeLess(a, b TreeEntry) bool {
	n := len(a.Name)
	if len(b.Name) < n {
		n = len(b.Name)
	}
	less := false
	decided := false
	for k := 0; k < n; k++ {
		ne := a.Name[k] != b.Name[k]
		less = rt.Or(rt.And(decided, less), rt.And(rt.Not(decided), rt.And(ne, a.Name[k] < b.Name[k])))
		decided = rt.Or(decided, ne)
	}
	term := func(e TreeEntry) byte {
		if len(e.Name) > n {
			return e.Name[n]
		}
		if e.ObjectType == Tree {
			return '/'
		}
		return 0
	}
	ca, cb := term(a), term(b)
	return rt.Or(rt.And(decided, less), rt.And(rt.Not(decided), ca < cb))
}

func vhCheckTreeOrder(in, sorted []TreeEntry) {
	rt.Assert(len(sorted) == len(in), "tree-keeps-every-entry")
	for i := 1; i < len(sorted); i++ {
		rt.Assert(rt.Not(gitTreeLess(sorted[i], sorted[i-1])), "tree-entries-in-git-order")
	}
	for _, e := range in {
		found := false
		for _, s := range sorted {
			found = rt.Or(found, rt.And(s.Name == e.Name, s.ObjectType == e.ObjectType))
		}
		rt.Assert(found, "tree-entry-kept")
	}
}

// VH_C15_treeorder: the order in which GoGitRepo.StoreTree hands entries to go-git is
// git's canonical tree order (so that the written tree passes fsck).
func VH_C15_treeorder() {
	n := 2 + rt.Choose(rt.Param("N", 3)-1)
	entries := make([]TreeEntry, n)
	for i := range entries {
		name := rt.NondetString(rt.Param("L", 2))
		rt.Assume(len(name) > 0)
		for k := 0; k < len(name); k++ {
			// printable ASCII names without '/' (native replay stores a real tree)
			rt.Assume(rt.And(rt.And(name[k] >= 0x20, name[k] < 0x7f), name[k] != '/'))
		}
		for j := 0; j < i; j++ {
			rt.Assume(entries[j].Name != name)
		}
		ot := Blob
		if rt.Choose(2) == 1 {
			ot = Tree
			rt.Cover("directory-entry")
		}
		entries[i] = TreeEntry{ObjectType: ot, Name: name, Hash: Hash("4b825dc642cb6eb9a060e54bf8d69288fbee4904")}
	}
	in := append([]TreeEntry{}, entries...)
	if rt.Symbolic() {
		repo := &GoGitRepo{}
		rt.OnSortSlice(func(sorted any) {
			vhCheckTreeOrder(in, sorted.([]TreeEntry))
			rt.Cover("order-checked")
			rt.EndPath()
		})
		_, _ = repo.StoreTree(entries)
		rt.Unsupported("StoreTree did not sort")
		return
	}
	// native: a real repository; the stored tree is read back
	rt.Cover("order-checked")
	dir, err := os.MkdirTemp("", "vh-c15-")
	if err != nil {
		return
	}
	defer os.RemoveAll(dir)
	repo, err := InitGoGitRepo(dir, "git-bug")
	if err != nil {
		return
	}
	blob, _ := repo.StoreData([]byte{})
	sub, _ := repo.StoreTree(nil)
	for i := range entries {
		if entries[i].ObjectType == Tree {
			entries[i].Hash = sub
		} else {
			entries[i].Hash = blob
		}
		in[i].Hash = entries[i].Hash
	}
	h, err := repo.StoreTree(entries)
	rt.Assert(err == nil, "tree-stored")
	got, err := repo.ReadTree(h)
	rt.Assert(err == nil, "tree-read-back")
	vhCheckTreeOrder(in, got)
}
