package repository

// VHListCommits exposes the real nonNativeListCommits (used by GoGitRepo and mockRepo)
// to the model repository of the /verif harnesses. Overlay only.
func VHListCommits(repo RepoData, ref string) ([]Hash, error) {
	return nonNativeListCommits(repo, ref)
}
