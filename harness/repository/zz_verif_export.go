package repository

import "github.com/MichaelMure/git-bug/util/lamport"

// VHListCommits exposes the real nonNativeListCommits (used by GoGitRepo and mockRepo)
// to the model repository of the /verif harnesses. Overlay only.
func VHListCommits(repo RepoData, ref string) ([]Hash, error) {
	return nonNativeListCommits(repo, ref)
}

// VHNewClockRepo builds a GoGitRepo value with only the fields its clock methods touch
// (clocks, localStorage), so that the model repository runs the real getClock /
// GetOrCreateClock / Increment / Witness code over the model filesystem.
func VHNewClockRepo(storage LocalStorage) *GoGitRepo {
	return &GoGitRepo{
		clocks:       make(map[string]lamport.Clock),
		localStorage: storage,
	}
}

// VHGetClock exposes the unexported getClock (used by OpenGoGitRepo to decide whether
// the clock loaders must run).
func (repo *GoGitRepo) VHGetClock(name string) (lamport.Clock, error) {
	repo.clocksMutex.Lock()
	defer repo.clocksMutex.Unlock()
	return repo.getClock(name)
}
