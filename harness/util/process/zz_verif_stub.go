package process

// VHIsRunning is M-PID: liveness of a process id is an environment fact supplied by the
// harness (overlay only; the real IsRunning is kept as IsRunning__orig).
var VHIsRunning func(pid int) bool

func IsRunning(pid int) bool {
	if VHIsRunning != nil {
		return VHIsRunning(pid)
	}
	return IsRunning__orig(pid)
}
