package lamport

import (
	"github.com/MichaelMure/git-bug/zzverif/rt"
	"github.com/MichaelMure/git-bug/zzverif/vfs"
)

// VH_C05_mem: MemClock only moves forward; Witness takes the maximum; Increment
// returns the new, strictly larger value.
func VH_C05_mem() {
	c0 := rt.NondetUint64()
	rt.Assume(c0 < ^uint64(0))
	mc := NewMemClockWithTime(c0)
	steps := rt.Param("STEPS", 3)
	prev := c0
	for s := 0; s < steps; s++ {
		if rt.Choose(2) == 0 {
			rt.Assume(prev < ^uint64(0))
			t, err := mc.Increment()
			rt.Assert(err == nil, "increment-no-error")
			rt.Assert(uint64(t) == prev+1, "increment-plus-one")
			rt.Assert(uint64(mc.Time()) == prev+1, "increment-visible")
			prev = prev + 1
			rt.Cover("increment")
		} else {
			v := rt.NondetUint64()
			err := mc.Witness(Time(v))
			rt.Assert(err == nil, "witness-no-error")
			now := uint64(mc.Time())
			rt.Assert(now >= prev, "witness-never-lowers")
			rt.Assert(now >= v, "witness-dominates-seen")
			rt.Assert(now == prev || now == v, "witness-is-max")
			if now != prev {
				rt.Cover("witness-raised")
			}
			prev = now
		}
	}
	rt.Observe("final", prev)
}

// VH_C05_persist: PersistedClock keeps its file equal to the counter; a reload
// (process restart) yields exactly the stored counter; call/restart/call never lowers.
func VH_C05_persist() {
	fs := vfs.New()
	const p = "clocks/bugs-edit"
	var pc *PersistedClock
	var err error
	var cur uint64
	if rt.Choose(2) == 0 {
		pc, err = NewPersistedClock(fs, p)
		rt.Assert(err == nil, "new-no-error")
		cur = 1
		rt.Assert(uint64(pc.Time()) == 1, "new-starts-at-one")
		rt.Cover("created")
	} else {
		// an existing clock file holding an arbitrary value
		c0 := rt.NondetUint64()
		rt.Assume(c0 < ^uint64(0)-4)
		seed := &PersistedClock{MemClock: NewMemClockWithTime(c0), root: fs, filePath: p}
		rt.Assert(seed.Write() == nil, "seed-write")
		pc, err = LoadPersistedClock(fs, p)
		rt.Assert(err == nil, "load-no-error")
		rt.Assert(uint64(pc.Time()) == c0, "load-reads-stored")
		cur = c0
		rt.Cover("loaded")
	}
	steps := rt.Param("STEPS", 3)
	for s := 0; s < steps; s++ {
		switch rt.Choose(3) {
		case 0:
			t, err := pc.Increment()
			rt.Assert(err == nil, "p-increment-no-error")
			rt.Assert(uint64(t) == cur+1, "p-increment-plus-one")
			cur++
		case 1:
			v := rt.NondetUint64()
			rt.Assume(v < ^uint64(0)-4)
			rt.Assert(pc.Witness(Time(v)) == nil, "p-witness-no-error")
			now := uint64(pc.Time())
			rt.Assert(now >= cur && now >= v && (now == cur || now == v), "p-witness-is-max")
			cur = now
		case 2:
			// process restart: drop the object, reload from the file
			re, err := LoadPersistedClock(fs, p)
			rt.Assert(err == nil, "reload-no-error")
			if err != nil {
				return
			}
			rt.Assert(uint64(re.Time()) == cur, "reload-yields-counter")
			pc = re
			rt.Cover("restart")
		}
		// the file always holds the counter
		chk, err := LoadPersistedClock(fs, p)
		rt.Assert(err == nil && uint64(chk.Time()) == cur, "file-holds-counter")
	}
	_, err = LoadPersistedClock(fs, "clocks/absent")
	rt.Assert(err == ErrClockNotExist, "missing-file-reported")
	rt.Observe("final", cur)
}

// VH_C05_interference: MemClock under interference by other threads (they may raise
// the counter between any two atomic operations of this thread): Witness still ends with
// the clock at or above both its old value and the witnessed one, Increment returns a
// value above the old one, and nothing ever lowers the clock.
func VH_C05_interference() {
	c0 := rt.NondetUint64()
	rt.Assume(c0 < 1<<62)
	mc := NewMemClockWithTime(c0)
	if rt.Choose(2) == 0 {
		v := rt.NondetUint64()
		rt.Assume(v < 1<<62)
		err := mc.Witness(Time(v))
		rt.Assert(err == nil, "witness-no-error")
		now := uint64(mc.counter)
		rt.Assert(now >= c0, "witness-never-lowers-under-interference")
		rt.Assert(now >= v, "witness-dominates-seen-under-interference")
		rt.Cover("witness")
	} else {
		t, err := mc.Increment()
		rt.Assert(err == nil, "increment-no-error")
		rt.Assert(uint64(t) > c0, "increment-above-old-under-interference")
		rt.Assert(uint64(mc.counter) >= uint64(t), "clock-not-below-returned-time")
		rt.Cover("increment")
	}
}

// VH_C06_torn: the process dies inside a clock update, possibly with a torn write (only a
// prefix of the new decimal value reaches the file). After the restart the clock file is
// either reported missing/unusable (the clock loaders rebuild it from the stored entities)
// or holds a value that is not lower than the value before the interrupted update — which
// is what reachable commits may hold.
func VH_C06_torn() {
	fs := vfs.New()
	const p = "clocks/bugs-edit"
	pc, err := NewPersistedClock(fs, p)
	rt.Assert(err == nil, "new-no-error")
	olds := []uint64{1, 9, 12, 99, 123456, 999999}
	old := olds[rt.Choose(len(olds))]
	rt.Assert(pc.Witness(Time(old)) == nil, "seed-witness")
	news := []uint64{0, 13, 100, 1000000, 18446744073709551000}
	nv := news[rt.Choose(len(news))]
	k := rt.Choose(rt.Param("K", 3))
	torn := rt.Choose(rt.Param("T", 4)) // 0 = the write is lost entirely
	fs.CrashAfter = fs.Mutations + k
	fs.Torn = torn
	crashed, _ := rt.Try(func() {
		if nv == 0 {
			_, _ = pc.Increment()
		} else {
			_ = pc.Witness(Time(nv))
		}
	})
	fs.CrashAfter = -1
	fs.Torn = 0
	if !crashed {
		rt.Cover("not-crashed")
	}
	re, err := LoadPersistedClock(fs, p)
	if err != nil {
		rt.Assert(err == ErrClockNotExist, "unusable-clock-file-reported-missing")
		rt.Cover("reported-missing")
		return
	}
	now := uint64(re.Time())
	if torn > 0 && crashed {
		rt.Cover("torn-write")
	}
	rt.Assert(now >= old, "torn-clock-file-never-lowers-the-clock")
	rt.Observe("now", now)
}
