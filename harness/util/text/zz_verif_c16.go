package text

import "github.com/MichaelMure/git-bug/zzverif/rt"

// VH_C16_text: whatever text the tracker holds, the sanitised text passes the
// validation the operations apply (Safe for messages, SafeOneLine for titles, names and
// labels), and sanitising never panics.
func VH_C16_text() {
	s := rt.NondetString(rt.Param("L", 3))
	var multi, one string
	panicked, _ := rt.Try(func() { multi = Cleanup(s) })
	rt.Assert(!panicked, "cleanup-no-panic")
	panicked, _ = rt.Try(func() { one = CleanupOneLine(s) })
	rt.Assert(!panicked, "cleanup-one-line-no-panic")
	rt.Assert(Safe(multi), "cleaned-message-is-safe")
	rt.Assert(SafeOneLine(one), "cleaned-title-is-safe-one-line")
	// (invalid UTF-8 bytes are replaced by U+FFFD, so the result can be longer than the input)
	if len(one) < len(s) {
		rt.Cover("something-removed")
	}
	if len(one) == len(s) && len(s) > 0 {
		rt.Cover("kept-as-is")
	}
	rt.Observe("one", one)
	rt.Observe("multi", multi)
}
