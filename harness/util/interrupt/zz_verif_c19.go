package interrupt

// C19 — the signal path: signal.Notify and os.Exit inside RegisterCleaner's handler
// goroutine are redirected (text substitution) to the two functions below, so that a
// harness can deliver an interrupt at a chosen moment and observe the process exit.

import "os"

var (
	vhSignals   chan<- os.Signal
	vhInstalled chan struct{}
	VHExited    chan int
)

func vhNotify(c chan<- os.Signal, sig ...os.Signal) {
	vhSignals = c
	close(vhInstalled)
}

func vhExit(code int) {
	VHExited <- code
	select {} // the process is gone
}

// VHReset forgets the registered cleaners and the handler (a new process).
func VHReset() {
	mu.Lock()
	defer mu.Unlock()
	cleaners = nil
	handlerCreated = false
	vhSignals = nil
	vhInstalled = make(chan struct{})
	VHExited = make(chan int, 1)
}

// VHInterrupt delivers SIGINT to the process, if a handler is installed, and waits for
// the process to exit; it reports whether a handler was there.
func VHInterrupt() bool {
	mu.Lock()
	created := handlerCreated
	mu.Unlock()
	if !created {
		return false
	}
	<-vhInstalled // the handler goroutine has called signal.Notify
	vhSignals <- os.Interrupt
	<-VHExited
	return true
}
