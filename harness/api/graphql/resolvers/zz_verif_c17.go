package resolvers

import (
	"context"

	"github.com/MichaelMure/git-bug/api/auth"
	"github.com/MichaelMure/git-bug/api/graphql/models"
	"github.com/MichaelMure/git-bug/cache"
	"github.com/MichaelMure/git-bug/entities/bug"
	"github.com/MichaelMure/git-bug/entities/common"
	"github.com/MichaelMure/git-bug/entity"
	"github.com/MichaelMure/git-bug/zzverif/rt"
)

type vhOtherKey struct{}

// VH_C17_gate: every mutation resolver, without an authenticated user, is refused and
// leaves refs, objects, clocks, cache files and the index untouched; with a user it
// records exactly the requested change authored by that user and returns the new state.
func VH_C17_gate() {
	// a repository with one identity or with two; the request user (bob, when there are
	// two) is not the repository's configured user (alice)
	nIdent := 1 + rt.Choose(2)
	fx := cache.VHNewFixtureN(nIdent)
	if nIdent == 1 {
		rt.Cover("single-identity-repository")
	}
	user := fx.Bob
	mrc := cache.NewMultiRepoCache()
	rc, events := mrc.RegisterDefaultRepository(fx.Repo)
	for e := range events {
		rt.Assume(e.Err == nil)
	}
	r := mutationResolver{cache: mrc}

	// request context: no user / a value of another kind under another key / a user
	var ctx context.Context
	withUser := false
	switch rt.Choose(3) {
	case 0:
		ctx = context.Background()
		rt.Cover("no-user")
	case 1:
		ctx = context.WithValue(context.Background(), vhOtherKey{}, user)
		rt.Cover("foreign-context-value")
	default:
		ctx = auth.CtxWithUser(context.Background(), user)
		withUser = true
		rt.Cover("with-user")
	}
	// bug designation: full id, a prefix, or something that matches nothing
	prefix := fx.Bug.String()
	matches := true
	switch rt.Choose(3) {
	case 1:
		prefix = fx.Bug.String()[:8]
	case 2:
		prefix = "ffff"
		matches = false
	}
	before, _ := rc.Bugs().Resolve(fx.Bug)
	opsBefore := len(before.Snapshot().Operations)
	nBugs := len(rc.Bugs().AllIds())
	fx.Repo.Log = nil
	fx.Repo.FS.Log = nil

	m := rt.Choose(9)
	var err error
	var payloadBug models.BugWrapper
	wantOps := 1
	needsBug := true
	panicked, _ := rt.Try(func() {
		switch m {
		case 0:
			needsBug = false
			var p *models.NewBugPayload
			p, err = r.NewBug(ctx, models.NewBugInput{Title: "new", Message: "msg"})
			if p != nil {
				payloadBug = p.Bug
			}
		case 1:
			var p *models.AddCommentPayload
			p, err = r.AddComment(ctx, models.AddCommentInput{Prefix: prefix, Message: "hello"})
			if p != nil {
				payloadBug = p.Bug
			}
		case 2:
			wantOps = 2
			var p *models.AddCommentAndCloseBugPayload
			p, err = r.AddCommentAndClose(ctx, models.AddCommentAndCloseBugInput{Prefix: prefix, Message: "bye"})
			if p != nil {
				payloadBug = p.Bug
			}
		case 3:
			wantOps = 2
			var p *models.AddCommentAndReopenBugPayload
			p, err = r.AddCommentAndReopen(ctx, models.AddCommentAndReopenBugInput{Prefix: prefix, Message: "again"})
			if p != nil {
				payloadBug = p.Bug
			}
		case 4:
			var p *models.EditCommentPayload
			target := entity.CombineIds(fx.Bug, fx.Bug) // the create comment
			tp := target.String()
			if !matches {
				tp = "ffff"
			}
			p, err = r.EditComment(ctx, models.EditCommentInput{TargetPrefix: tp, Message: "edited"})
			if p != nil {
				payloadBug = p.Bug
			}
		case 5:
			var p *models.ChangeLabelPayload
			p, err = r.ChangeLabels(ctx, &models.ChangeLabelInput{Prefix: prefix, Added: []string{"l1"}})
			if p != nil {
				payloadBug = p.Bug
			}
		case 6:
			var p *models.OpenBugPayload
			p, err = r.OpenBug(ctx, models.OpenBugInput{Prefix: prefix})
			if p != nil {
				payloadBug = p.Bug
			}
		case 7:
			var p *models.CloseBugPayload
			p, err = r.CloseBug(ctx, models.CloseBugInput{Prefix: prefix})
			if p != nil {
				payloadBug = p.Bug
			}
		case 8:
			var p *models.SetTitlePayload
			p, err = r.SetTitle(ctx, models.SetTitleInput{Prefix: prefix, Title: "renamed"})
			if p != nil {
				payloadBug = p.Bug
			}
		}
	})
	rt.Assert(!panicked, "mutation-no-panic")
	if panicked {
		return
	}
	if !withUser {
		rt.Assert(err != nil, "mutation-refused-without-user")
		rt.Assert(len(fx.Repo.Log) == 0, "refused-mutation-leaves-repository-untouched")
		rt.Assert(len(fx.Repo.FS.Log) == 0, "refused-mutation-leaves-cache-files-untouched")
		after, rerr := rc.Bugs().Resolve(fx.Bug)
		rt.Assert(rerr == nil && len(after.Snapshot().Operations) == opsBefore, "refused-mutation-leaves-cache-untouched")
		rt.Assert(len(rc.Bugs().AllIds()) == nBugs, "refused-mutation-creates-no-bug")
		// queries keep working
		_, qerr := rc.Bugs().ResolvePrefix(fx.Bug.String()[:8])
		rt.Assert(qerr == nil, "queries-work-without-user")
		return
	}
	if needsBug && !matches {
		rt.Cover("unknown-bug")
		rt.Assert(err != nil, "unknown-bug-refused")
		rt.Assert(len(fx.Repo.Log) == 0, "unknown-bug-changes-nothing")
		return
	}
	rt.Assert(err == nil, "mutation-accepted-with-user")
	if err != nil {
		return
	}
	rt.Cover("mutation-applied")
	// what is stored: a cache rebuilt from the git data shows the change, by that user
	rb := fx.VHRebuild()
	var target entity.Id
	if m == 0 {
		ids := rb.Bugs().AllIds()
		rt.Assert(len(ids) == nBugs+1, "new-bug-stored")
		for _, id := range ids {
			if id != fx.Bug {
				target = id
			}
		}
		opsBefore = 0
	} else {
		target = fx.Bug
	}
	stored, serr := rb.Bugs().Resolve(target)
	rt.Assert(serr == nil, "changed-bug-readable")
	if serr != nil {
		return
	}
	snap := stored.Snapshot()
	rt.Assert(len(snap.Operations) == opsBefore+wantOps, "exactly-the-requested-operations-recorded")
	for k := opsBefore; k < len(snap.Operations); k++ {
		rt.Assert(snap.Operations[k].Author().Id() == user, "recorded-operations-authored-by-the-user")
	}
	switch m {
	case 0:
		rt.Assert(snap.Title == "new", "new-bug-title")
	case 1:
		rt.Assert(snap.Comments[len(snap.Comments)-1].Message == "hello", "comment-recorded")
	case 2:
		rt.Assert(snap.Status == common.ClosedStatus && snap.Comments[len(snap.Comments)-1].Message == "bye", "comment-and-close-recorded")
	case 3:
		rt.Assert(snap.Status == common.OpenStatus && snap.Comments[len(snap.Comments)-1].Message == "again", "comment-and-reopen-recorded")
	case 4:
		rt.Assert(snap.Comments[0].Message == "edited", "edit-recorded")
	case 5:
		rt.Assert(len(snap.Labels) == 1 && snap.Labels[0] == bug.Label("l1"), "label-recorded")
	case 6:
		rt.Assert(snap.Status == common.OpenStatus, "open-recorded")
	case 7:
		rt.Assert(snap.Status == common.ClosedStatus, "close-recorded")
	case 8:
		rt.Assert(snap.Title == "renamed", "title-recorded")
	}
	// the returned bug reflects it
	rt.Assert(payloadBug != nil, "payload-has-bug")
	if payloadBug != nil {
		pt := payloadBug.Title()
		ps := payloadBug.Status()
		rt.Assert(pt == snap.Title && ps == snap.Status, "returned-bug-reflects-the-change")
	}
	rt.Observe("m", m)

	// an accepted, authenticated mutation does not authenticate what follows: the same
	// resolver, cache and process refuse a later mutation that comes without a user, and
	// nothing is written (authentication is a fact about the request, not about the server)
	fx.Repo.Log = nil
	fx.Repo.FS.Log = nil
	_, aerr := r.AddComment(context.Background(), models.AddCommentInput{Prefix: fx.Bug.String(), Message: "anonymous"})
	rt.Assert(aerr != nil, "later-anonymous-mutation-refused")
	rt.Assert(len(fx.Repo.Log) == 0 && len(fx.Repo.FS.Log) == 0, "later-anonymous-mutation-changes-nothing")
}

// VH_C20_identities: paging through allIdentities page by page (each page is a separate
// request, so the list is produced again, possibly in another map iteration order)
// yields every identity exactly once.
func VH_C20_identities() {
	fx := cache.VHNewFixture()
	rc, err := cache.NewRepoCacheNoEvents(fx.Repo)
	rt.Assume(err == nil)
	obj := &models.Repository{Repo: rc}
	all := rc.Identities().AllIds()
	n := len(all)
	rt.Assert(n >= 2, "fixture-has-identities")
	size := 1 + rt.Choose(2)
	seen := map[entity.Id]int{}
	var after *string
	for page := 0; page < n+1; page++ {
		// a new request: the resolver lists the ids again
		rt.MapOrder(page % 2)
		con, err := repoResolver{}.AllIdentities(context.Background(), obj, after, nil, &size, nil)
		rt.Assert(err == nil, "identities-page-served")
		if err != nil {
			return
		}
		for _, e := range con.Edges {
			seen[e.Node.Id()]++
		}
		if !con.PageInfo.HasNextPage {
			break
		}
		end := con.PageInfo.EndCursor
		after = &end
	}
	rt.MapOrder(0)
	for _, id := range all {
		rt.Assert(seen[id] == 1, "every-identity-exactly-once")
	}
	rt.Assert(len(seen) == n, "no-foreign-identity")
	rt.Cover("paged")
}
