package resolvers

// C20 at the resolver level: the connections the GraphQL API actually serves (allBugs,
// a bug's comments, operations and timeline) are walked page by page, forwards by the
// cursor of the last edge received — what a client does — and backwards by the cursor of
// the first edge, on the real cache stack. Every element exactly once, in order; edge
// cursors agree with the page info.

import (
	"context"

	"github.com/MichaelMure/git-bug/api/graphql/models"
	"github.com/MichaelMure/git-bug/cache"
	"github.com/MichaelMure/git-bug/zzverif/rt"
)

type vhPage struct {
	keys    []string
	cursors []string
	info    *models.PageInfo
	total   int
}

// vhWalk pages through fetch in both directions and checks exactly-once traversal.
func vhWalk(tag string, n int, size int, fetch func(after, before *string, first, last *int) (*vhPage, error)) {
	// forwards
	var seen []string
	var after *string
	for page := 0; page <= n; page++ {
		p, err := fetch(after, nil, &size, nil)
		rt.Assert(err == nil, tag+"-page-served")
		if err != nil {
			return
		}
		rt.Assert(p.total == n, tag+"-total-count")
		rt.Assert(len(p.keys) <= size, tag+"-page-size-respected")
		seen = append(seen, p.keys...)
		if len(p.cursors) > 0 {
			rt.Assert(p.cursors[0] == p.info.StartCursor && p.cursors[len(p.cursors)-1] == p.info.EndCursor, tag+"-edge-cursors-agree-with-page-info")
		}
		if !p.info.HasNextPage {
			break
		}
		rt.Assert(len(p.cursors) > 0, tag+"-non-final-page-not-empty")
		if len(p.cursors) == 0 {
			return
		}
		c := p.cursors[len(p.cursors)-1]
		after = &c
	}
	rt.Assert(len(seen) == n, tag+"-forward-walk-visits-every-element-once")
	// backwards
	var back []string
	var before *string
	for page := 0; page <= n; page++ {
		p, err := fetch(nil, before, nil, &size)
		rt.Assert(err == nil, tag+"-page-served")
		if err != nil {
			return
		}
		back = append(append([]string{}, p.keys...), back...)
		if !p.info.HasPreviousPage {
			break
		}
		rt.Assert(len(p.cursors) > 0, tag+"-non-final-page-not-empty")
		if len(p.cursors) == 0 {
			return
		}
		c := p.cursors[0]
		before = &c
	}
	rt.Assert(len(back) == n, tag+"-backward-walk-visits-every-element-once")
	// same order both ways, no repetition
	for i := range seen {
		if i < len(back) {
			rt.Assert(seen[i] == back[i], tag+"-same-order-both-ways")
		}
		for j := 0; j < i; j++ {
			rt.Assert(seen[i] != seen[j], tag+"-no-element-twice")
		}
	}
}

func VH_C20_resolvers() {
	fx := cache.VHNewPagingFixture(4, 4)
	rc, err := cache.NewRepoCacheNoEvents(fx.Repo)
	rt.Assume(err == nil)
	obj := &models.Repository{Repo: rc}
	ctx := context.Background()
	size := 1 + rt.Choose(3)
	ids := rc.Bugs().AllIds()
	switch rt.Choose(4) {
	case 0:
		vhWalk("bugs", len(ids), size, func(after, before *string, first, last *int) (*vhPage, error) {
			con, err := repoResolver{}.AllBugs(ctx, obj, after, before, first, last, nil)
			if err != nil {
				return nil, err
			}
			p := &vhPage{info: con.PageInfo, total: con.TotalCount}
			for _, e := range con.Edges {
				p.keys = append(p.keys, e.Node.Id().String())
				p.cursors = append(p.cursors, e.Cursor)
			}
			rt.Assert(len(con.Nodes) == len(con.Edges), "bugs-nodes-match-edges")
			return p, nil
		})
		rt.Cover("all-bugs")
	default:
		// the bug with the most operations
		var w models.BugWrapper
		most := -1
		for _, id := range ids {
			ex, err := rc.Bugs().ResolveExcerpt(id)
			rt.Assume(err == nil)
			if ex.LenComments > most {
				most = ex.LenComments
				w = models.NewLazyBug(rc, ex)
			}
		}
		kind := rt.Choose(3)
		ops, err := w.Operations()
		rt.Assume(err == nil)
		switch kind {
		case 0:
			cs, _ := w.Comments()
			vhWalk("comments", len(cs), size, func(after, before *string, first, last *int) (*vhPage, error) {
				con, err := bugResolver{}.Comments(ctx, w, after, before, first, last)
				if err != nil {
					return nil, err
				}
				p := &vhPage{info: con.PageInfo, total: con.TotalCount}
				for _, e := range con.Edges {
					p.keys = append(p.keys, e.Node.CombinedId().String())
					p.cursors = append(p.cursors, e.Cursor)
				}
				for k, nd := range con.Nodes {
					if k < len(con.Edges) {
						rt.Assert(nd.CombinedId() == con.Edges[k].Node.CombinedId(), "comments-nodes-match-edges")
					}
				}
				return p, nil
			})
			rt.Cover("comments")
		case 1:
			vhWalk("operations", len(ops), size, func(after, before *string, first, last *int) (*vhPage, error) {
				con, err := bugResolver{}.Operations(ctx, w, after, before, first, last)
				if err != nil {
					return nil, err
				}
				p := &vhPage{info: con.PageInfo, total: con.TotalCount}
				for _, e := range con.Edges {
					p.keys = append(p.keys, e.Node.Id().String())
					p.cursors = append(p.cursors, e.Cursor)
				}
				return p, nil
			})
			rt.Cover("operations")
		default:
			tl, _ := w.Timeline()
			vhWalk("timeline", len(tl), size, func(after, before *string, first, last *int) (*vhPage, error) {
				con, err := bugResolver{}.Timeline(ctx, w, after, before, first, last)
				if err != nil {
					return nil, err
				}
				p := &vhPage{info: con.PageInfo, total: con.TotalCount}
				for _, e := range con.Edges {
					p.keys = append(p.keys, e.Node.CombinedId().String())
					p.cursors = append(p.cursors, e.Cursor)
				}
				return p, nil
			})
			rt.Cover("timeline")
		}
	}
	rt.Observe("size", size)
}
