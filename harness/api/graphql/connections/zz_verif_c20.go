package connections

// C20 harnesses: the seven generated relay-connection paginators, driven with a
// symbolic page request and checked against window semantics.

import (
	"fmt"

	"github.com/MichaelMure/git-bug/api/graphql/models"
	"github.com/MichaelMure/git-bug/entities/bug"
	"github.com/MichaelMure/git-bug/entity"
	"github.com/MichaelMure/git-bug/entity/dag"
	"github.com/MichaelMure/git-bug/zzverif/rt"
)

type vhCapture[N any, E any] struct {
	edges []*E
	nodes []N
	info  *models.PageInfo
	total int
}

type vhSpec[N any, E any] struct {
	mkNode  func(i int) N
	nodeIdx func(n N) int
	edge    func(n N, offset int) Edge // as the resolvers build it
	cursor  func(e *E) string
	edgeIdx func(e *E) int
	// run calls the real *Con with a conMaker that records what it was given and
	// returns the capture of the connection that the paginator handed back.
	run func(src []N, in models.ConnectionInput, rec func(c *vhCapture[N, E]) int) (ret int, err error)
}

// vhCursorArg draws one cursor argument: absent, the cursor of an existing position, an
// arbitrary 12-byte string (the length of a one-digit cursor), or a well-formed cursor
// past the end.
func vhCursorArg(n int) *string {
	switch rt.Choose(4) {
	case 0:
		return nil
	case 1:
		if n == 0 {
			rt.Assume(false)
		}
		s := OffsetToCursor(rt.Choose(n))
		return &s
	case 2:
		s := rt.NondetStringN(12)
		return &s
	default:
		s := OffsetToCursor(n + 1)
		return &s
	}
}

func vhSizeArg() *int {
	if rt.Choose(2) == 0 {
		return nil
	}
	v := rt.NondetInt()
	return &v
}

// vhPos is the reference meaning of a cursor: the position whose cursor it is, or -1.
func vhPos(c *string, n int) int {
	if c == nil {
		return -1
	}
	for i := 0; i < n; i++ {
		if *c == OffsetToCursor(i) {
			return i
		}
	}
	return -1
}

func vhPaginate[N any, E any](sp vhSpec[N, E]) {
	n := rt.Choose(rt.Param("N", 4) + 1)
	src := make([]N, n)
	for i := range src {
		src[i] = sp.mkNode(i)
	}
	in := models.ConnectionInput{After: vhCursorArg(n), Before: vhCursorArg(n), First: vhSizeArg(), Last: vhSizeArg()}

	var caps []*vhCapture[N, E]
	rec := func(c *vhCapture[N, E]) int { caps = append(caps, c); return len(caps) - 1 }
	var ret int
	var err error
	panicked, pv := rt.Try(func() { ret, err = sp.run(src, in, rec) })
	rt.Assert(!panicked, "no-panic")
	_ = pv

	// source untouched
	for i := range src {
		rt.Assert(sp.nodeIdx(src[i]) == i, "source-unchanged")
	}

	negFirst := in.First != nil && *in.First < 0
	negLast := in.Last != nil && *in.Last < 0
	if negFirst || negLast {
		rt.Cover("negative-size")
		rt.Assert(err != nil, "negative-size-rejected")
		rt.Assert(ret >= 0 && ret < len(caps) && len(caps[ret].edges) == 0 && len(caps[ret].nodes) == 0, "negative-size-empty")
		return
	}
	rt.Assert(err == nil, "no-error")
	rt.Assert(ret >= 0 && ret < len(caps), "returns-made-connection")
	got := caps[ret]

	// reference window
	lo, hi := 0, n
	if p := vhPos(in.After, n); p >= 0 {
		lo = p + 1
	}
	if q := vhPos(in.Before, n); q >= lo {
		hi = q
	}
	upper := hi
	lower := lo
	if in.First != nil && hi-lo > *in.First {
		hi = lo + *in.First
	}
	if in.Last != nil && hi-lo > *in.Last {
		lo = hi - *in.Last
	}
	// the window bounds are decided by the path; make them concrete indices
	lo = rt.Concrete(lo, 0, n)
	hi = rt.Concrete(hi, 0, n)
	rt.Observe("lo", lo)
	rt.Observe("hi", hi)
	rt.Observe("n", n)

	rt.Assert(got.total == n, "total-count")
	rt.Assert(len(got.nodes) == hi-lo, "window-size-nodes")
	rt.Assert(len(got.edges) == hi-lo, "window-size-edges")
	for k := 0; k < len(got.nodes) && k < len(got.edges); k++ {
		rt.Assert(sp.nodeIdx(got.nodes[k]) == lo+k, "node-in-order")
		rt.Assert(sp.edgeIdx(got.edges[k]) == lo+k, "edge-node")
		rt.Assert(sp.cursor(got.edges[k]) == OffsetToCursor(lo+k), "edge-cursor-absolute")
	}
	if hi-lo > 0 && len(got.edges) == hi-lo {
		rt.Cover("non-empty")
		rt.Assert(got.info.StartCursor == sp.cursor(got.edges[0]), "start-cursor")
		rt.Assert(got.info.EndCursor == sp.cursor(got.edges[len(got.edges)-1]), "end-cursor")
	}
	forward := in.Before == nil && in.Last == nil
	backward := in.After == nil && in.First == nil
	if forward {
		rt.Cover("forward")
		rt.Assert(got.info.HasNextPage == (hi < n), "has-next-truthful")
		if got.info.HasNextPage {
			rt.Cover("forward-more")
		}
	}
	if backward {
		rt.Cover("backward")
		rt.Assert(got.info.HasPreviousPage == (lo > 0), "has-previous-truthful")
		if got.info.HasPreviousPage {
			rt.Cover("backward-more")
		}
	}
	_ = upper
	_ = lower
	rt.Cover("checked")
}

// ---- instantiations (edge makers as in api/graphql/resolvers) ----

func vhLabelSpec() vhSpec[bug.Label, models.LabelEdge] {
	return vhSpec[bug.Label, models.LabelEdge]{
		mkNode:  func(i int) bug.Label { return bug.Label(fmt.Sprintf("l%d", i)) },
		nodeIdx: func(l bug.Label) int { return vhParseIdx(string(l)) },
		edge: func(l bug.Label, off int) Edge {
			return models.LabelEdge{Node: l, Cursor: OffsetToCursor(off)}
		},
		cursor:  func(e *models.LabelEdge) string { return e.Cursor },
		edgeIdx: func(e *models.LabelEdge) int { return vhParseIdx(string(e.Node)) },
	}
}

func vhParseIdx(s string) int {
	if len(s) < 2 {
		return -1
	}
	v := 0
	for i := 1; i < len(s); i++ {
		v = v*10 + int(s[i]-'0')
	}
	return v
}

func VH_C20_Label() {
	sp := vhLabelSpec()
	sp.run = func(src []bug.Label, in models.ConnectionInput, rec func(*vhCapture[bug.Label, models.LabelEdge]) int) (int, error) {
		ptrs := map[*models.LabelConnection]int{}
		con, err := LabelCon(src, sp.edge, func(edges []*models.LabelEdge, nodes []bug.Label, info *models.PageInfo, total int) (*models.LabelConnection, error) {
			c := &models.LabelConnection{Edges: edges, Nodes: nodes, PageInfo: info, TotalCount: total}
			ptrs[c] = rec(&vhCapture[bug.Label, models.LabelEdge]{edges, nodes, info, total})
			return c, nil
		}, in)
		if k, ok := ptrs[con]; ok {
			return k, err
		}
		return -1, err
	}
	vhPaginate(sp)
}

func VH_C20_LazyBug() {
	sp := vhSpec[entity.Id, LazyBugEdge]{
		mkNode:  func(i int) entity.Id { return entity.Id(fmt.Sprintf("b%d", i)) },
		nodeIdx: func(l entity.Id) int { return vhParseIdx(string(l)) },
		edge: func(id entity.Id, off int) Edge {
			return LazyBugEdge{Id: id, Cursor: OffsetToCursor(off)}
		},
		cursor:  func(e *LazyBugEdge) string { return e.Cursor },
		edgeIdx: func(e *LazyBugEdge) int { return vhParseIdx(string(e.Id)) },
	}
	sp.run = func(src []entity.Id, in models.ConnectionInput, rec func(*vhCapture[entity.Id, LazyBugEdge]) int) (int, error) {
		ptrs := map[*models.BugConnection]int{}
		con, err := LazyBugCon(src, sp.edge, func(edges []*LazyBugEdge, nodes []entity.Id, info *models.PageInfo, total int) (*models.BugConnection, error) {
			c := &models.BugConnection{PageInfo: info, TotalCount: total}
			ptrs[c] = rec(&vhCapture[entity.Id, LazyBugEdge]{edges, nodes, info, total})
			return c, nil
		}, in)
		if k, ok := ptrs[con]; ok {
			return k, err
		}
		return -1, err
	}
	vhPaginate(sp)
}

func VH_C20_LazyIdentity() {
	sp := vhSpec[entity.Id, LazyIdentityEdge]{
		mkNode:  func(i int) entity.Id { return entity.Id(fmt.Sprintf("i%d", i)) },
		nodeIdx: func(l entity.Id) int { return vhParseIdx(string(l)) },
		edge: func(id entity.Id, off int) Edge {
			return LazyIdentityEdge{Id: id, Cursor: OffsetToCursor(off)}
		},
		cursor:  func(e *LazyIdentityEdge) string { return e.Cursor },
		edgeIdx: func(e *LazyIdentityEdge) int { return vhParseIdx(string(e.Id)) },
	}
	sp.run = func(src []entity.Id, in models.ConnectionInput, rec func(*vhCapture[entity.Id, LazyIdentityEdge]) int) (int, error) {
		ptrs := map[*models.IdentityConnection]int{}
		con, err := LazyIdentityCon(src, sp.edge, func(edges []*LazyIdentityEdge, nodes []entity.Id, info *models.PageInfo, total int) (*models.IdentityConnection, error) {
			c := &models.IdentityConnection{PageInfo: info, TotalCount: total}
			ptrs[c] = rec(&vhCapture[entity.Id, LazyIdentityEdge]{edges, nodes, info, total})
			return c, nil
		}, in)
		if k, ok := ptrs[con]; ok {
			return k, err
		}
		return -1, err
	}
	vhPaginate(sp)
}

type vhIdent struct {
	models.IdentityWrapper
	n int
}

func VH_C20_Identity() {
	sp := vhSpec[models.IdentityWrapper, models.IdentityEdge]{
		mkNode:  func(i int) models.IdentityWrapper { return &vhIdent{n: i} },
		nodeIdx: func(w models.IdentityWrapper) int { return w.(*vhIdent).n },
		edge: func(w models.IdentityWrapper, off int) Edge {
			return models.IdentityEdge{Node: w, Cursor: OffsetToCursor(off)}
		},
		cursor:  func(e *models.IdentityEdge) string { return e.Cursor },
		edgeIdx: func(e *models.IdentityEdge) int { return e.Node.(*vhIdent).n },
	}
	sp.run = func(src []models.IdentityWrapper, in models.ConnectionInput, rec func(*vhCapture[models.IdentityWrapper, models.IdentityEdge]) int) (int, error) {
		ptrs := map[*models.IdentityConnection]int{}
		con, err := IdentityCon(src, sp.edge, func(edges []*models.IdentityEdge, nodes []models.IdentityWrapper, info *models.PageInfo, total int) (*models.IdentityConnection, error) {
			c := &models.IdentityConnection{Edges: edges, Nodes: nodes, PageInfo: info, TotalCount: total}
			ptrs[c] = rec(&vhCapture[models.IdentityWrapper, models.IdentityEdge]{edges, nodes, info, total})
			return c, nil
		}, in)
		if k, ok := ptrs[con]; ok {
			return k, err
		}
		return -1, err
	}
	vhPaginate(sp)
}

type vhOp struct {
	dag.Operation
	n int
}

func VH_C20_Operation() {
	sp := vhSpec[dag.Operation, models.OperationEdge]{
		mkNode:  func(i int) dag.Operation { return &vhOp{n: i} },
		nodeIdx: func(w dag.Operation) int { return w.(*vhOp).n },
		edge: func(w dag.Operation, off int) Edge {
			return models.OperationEdge{Node: w, Cursor: OffsetToCursor(off)}
		},
		cursor:  func(e *models.OperationEdge) string { return e.Cursor },
		edgeIdx: func(e *models.OperationEdge) int { return e.Node.(*vhOp).n },
	}
	sp.run = func(src []dag.Operation, in models.ConnectionInput, rec func(*vhCapture[dag.Operation, models.OperationEdge]) int) (int, error) {
		ptrs := map[*models.OperationConnection]int{}
		con, err := OperationCon(src, sp.edge, func(edges []*models.OperationEdge, nodes []dag.Operation, info *models.PageInfo, total int) (*models.OperationConnection, error) {
			c := &models.OperationConnection{Edges: edges, Nodes: nodes, PageInfo: info, TotalCount: total}
			ptrs[c] = rec(&vhCapture[dag.Operation, models.OperationEdge]{edges, nodes, info, total})
			return c, nil
		}, in)
		if k, ok := ptrs[con]; ok {
			return k, err
		}
		return -1, err
	}
	vhPaginate(sp)
}

func VH_C20_Comment() {
	sp := vhSpec[bug.Comment, models.CommentEdge]{
		mkNode:  func(i int) bug.Comment { return bug.Comment{Message: fmt.Sprintf("c%d", i)} },
		nodeIdx: func(c bug.Comment) int { return vhParseIdx(c.Message) },
		edge: func(c bug.Comment, off int) Edge {
			return models.CommentEdge{Node: &c, Cursor: OffsetToCursor(off)}
		},
		cursor:  func(e *models.CommentEdge) string { return e.Cursor },
		edgeIdx: func(e *models.CommentEdge) int { return vhParseIdx(e.Node.Message) },
	}
	sp.run = func(src []bug.Comment, in models.ConnectionInput, rec func(*vhCapture[bug.Comment, models.CommentEdge]) int) (int, error) {
		ptrs := map[*models.CommentConnection]int{}
		con, err := CommentCon(src, sp.edge, func(edges []*models.CommentEdge, nodes []bug.Comment, info *models.PageInfo, total int) (*models.CommentConnection, error) {
			c := &models.CommentConnection{Edges: edges, PageInfo: info, TotalCount: total}
			ptrs[c] = rec(&vhCapture[bug.Comment, models.CommentEdge]{edges, nodes, info, total})
			return c, nil
		}, in)
		if k, ok := ptrs[con]; ok {
			return k, err
		}
		return -1, err
	}
	vhPaginate(sp)
}

type vhItem struct {
	bug.TimelineItem
	n int
}

func VH_C20_TimelineItem() {
	sp := vhSpec[bug.TimelineItem, models.TimelineItemEdge]{
		mkNode:  func(i int) bug.TimelineItem { return &vhItem{n: i} },
		nodeIdx: func(w bug.TimelineItem) int { return w.(*vhItem).n },
		edge: func(w bug.TimelineItem, off int) Edge {
			return models.TimelineItemEdge{Node: w, Cursor: OffsetToCursor(off)}
		},
		cursor:  func(e *models.TimelineItemEdge) string { return e.Cursor },
		edgeIdx: func(e *models.TimelineItemEdge) int { return e.Node.(*vhItem).n },
	}
	sp.run = func(src []bug.TimelineItem, in models.ConnectionInput, rec func(*vhCapture[bug.TimelineItem, models.TimelineItemEdge]) int) (int, error) {
		ptrs := map[*models.TimelineItemConnection]int{}
		con, err := TimelineItemCon(src, sp.edge, func(edges []*models.TimelineItemEdge, nodes []bug.TimelineItem, info *models.PageInfo, total int) (*models.TimelineItemConnection, error) {
			c := &models.TimelineItemConnection{Edges: edges, Nodes: nodes, PageInfo: info, TotalCount: total}
			ptrs[c] = rec(&vhCapture[bug.TimelineItem, models.TimelineItemEdge]{edges, nodes, info, total})
			return c, nil
		}, in)
		if k, ok := ptrs[con]; ok {
			return k, err
		}
		return -1, err
	}
	vhPaginate(sp)
}

// VH_C20_walk: the "exactly once" step lemma on the bug list: the page requested with
// after = endCursor of the previous page starts right after it, and when hasNextPage
// is false nothing follows.
func VH_C20_walk() {
	n := rt.Choose(rt.Param("N", 4) + 1)
	src := make([]bug.Label, n)
	for i := range src {
		src[i] = bug.Label(fmt.Sprintf("l%d", i))
	}
	sp := vhLabelSpec()
	mk := func(edges []*models.LabelEdge, nodes []bug.Label, info *models.PageInfo, total int) (*models.LabelConnection, error) {
		return &models.LabelConnection{Edges: edges, Nodes: nodes, PageInfo: info, TotalCount: total}, nil
	}
	// an arbitrary page of a forward walk: after = absent or the cursor of a position
	var after *string
	start := 0
	if rt.Choose(2) == 1 && n > 0 {
		p := rt.Choose(n)
		c := OffsetToCursor(p)
		after = &c
		start = p + 1
	}
	first := rt.NondetInt()
	rt.Assume(first >= 0)
	page, err := LabelCon(src, sp.edge, mk, models.ConnectionInput{After: after, First: &first})
	rt.Assert(err == nil, "walk-no-error")
	k := len(page.Nodes)
	for j := 0; j < k; j++ {
		rt.Assert(vhParseIdx(string(page.Nodes[j])) == start+j, "walk-page-contiguous")
	}
	if !page.PageInfo.HasNextPage {
		rt.Cover("walk-last-page")
		rt.Assert(start+k == n, "walk-last-page-reaches-end")
		return
	}
	rt.Assert(k > 0 || first == 0, "walk-progress")
	if k == 0 {
		return
	}
	rt.Cover("walk-next")
	first2 := rt.NondetInt()
	rt.Assume(first2 >= 0)
	end := page.PageInfo.EndCursor
	next, err := LabelCon(src, sp.edge, mk, models.ConnectionInput{After: &end, First: &first2})
	rt.Assert(err == nil, "walk-no-error-2")
	for j := 0; j < len(next.Nodes); j++ {
		rt.Assert(vhParseIdx(string(next.Nodes[j])) == start+k+j, "walk-next-follows")
	}
	rt.Assert(len(next.Nodes) > 0 || first2 == 0, "walk-next-nonempty")

	// and the same backwards
}

// VH_C20_walkback: backward step lemma (last/before).
func VH_C20_walkback() {
	n := rt.Choose(rt.Param("N", 4) + 1)
	src := make([]bug.Label, n)
	for i := range src {
		src[i] = bug.Label(fmt.Sprintf("l%d", i))
	}
	sp := vhLabelSpec()
	mk := func(edges []*models.LabelEdge, nodes []bug.Label, info *models.PageInfo, total int) (*models.LabelConnection, error) {
		return &models.LabelConnection{Edges: edges, Nodes: nodes, PageInfo: info, TotalCount: total}, nil
	}
	var before *string
	end := n
	if rt.Choose(2) == 1 && n > 0 {
		p := rt.Choose(n)
		c := OffsetToCursor(p)
		before = &c
		end = p
	}
	last := rt.NondetInt()
	rt.Assume(last >= 0)
	page, err := LabelCon(src, sp.edge, mk, models.ConnectionInput{Before: before, Last: &last})
	rt.Assert(err == nil, "walkback-no-error")
	k := len(page.Nodes)
	for j := 0; j < k; j++ {
		rt.Assert(vhParseIdx(string(page.Nodes[j])) == end-k+j, "walkback-page-contiguous")
	}
	if !page.PageInfo.HasPreviousPage {
		rt.Cover("walkback-last-page")
		rt.Assert(end-k == 0, "walkback-reaches-start")
		return
	}
	if k == 0 {
		rt.Assert(last == 0, "walkback-progress")
		return
	}
	rt.Cover("walkback-next")
	last2 := rt.NondetInt()
	rt.Assume(last2 >= 0)
	startc := page.PageInfo.StartCursor
	prev, err := LabelCon(src, sp.edge, mk, models.ConnectionInput{Before: &startc, Last: &last2})
	rt.Assert(err == nil, "walkback-no-error-2")
	m := len(prev.Nodes)
	for j := 0; j < m; j++ {
		rt.Assert(vhParseIdx(string(prev.Nodes[j])) == end-k-m+j, "walkback-prev-precedes")
	}
	rt.Assert(m > 0 || last2 == 0, "walkback-prev-nonempty")
}

// VH_C20_cursor: CursorToOffset never panics on arbitrary input and inverts
// OffsetToCursor on the offsets the paginators produce.
func VH_C20_cursor() {
	s := rt.NondetString(rt.Param("L", 4))
	var off int
	var err error
	panicked, _ := rt.Try(func() { off, err = CursorToOffset(s) })
	rt.Assert(!panicked, "cursor-decode-no-panic")
	if err != nil {
		rt.Cover("cursor-rejected")
		rt.Assert(off == 0, "cursor-error-zero")
	} else {
		rt.Cover("cursor-accepted")
	}
	for i := 0; i <= rt.Param("N", 4)+1; i++ {
		o, e := CursorToOffset(OffsetToCursor(i))
		rt.Assert(e == nil && o == i, "cursor-roundtrip")
	}
}
