package http

// C17 — the file upload endpoint: without an authenticated user it answers 403 and the
// repository is left unchanged; with a user an image is stored as exactly the uploaded
// bytes and its hash is returned; anything else is refused without storing. The real
// gitUploadFileHandler.ServeHTTP is executed on a hand-built *http.Request (no server,
// no router) against the real cache stack over the model repository.

import (
	"bytes"
	"context"
	"io"
	"mime/multipart"
	"net/http"
	"strings"

	"github.com/MichaelMure/git-bug/api/auth"
	"github.com/MichaelMure/git-bug/cache"
	"github.com/MichaelMure/git-bug/entity"
	"github.com/MichaelMure/git-bug/zzverif/rt"
)

type vhRecorder struct {
	hdr    http.Header
	status int
	body   bytes.Buffer
}

func (r *vhRecorder) Header() http.Header { return r.hdr }
func (r *vhRecorder) Write(p []byte) (int, error) {
	if r.status == 0 {
		r.status = 200
	}
	return r.body.Write(p)
}
func (r *vhRecorder) WriteHeader(code int) {
	if r.status == 0 {
		r.status = code
	}
}

type vhOtherKey struct{}

var vhPNG = []byte{0x89, 'P', 'N', 'G', 0x0d, 0x0a, 0x1a, 0x0a, 0, 0, 0, 0x0d, 'I', 'H', 'D', 'R'}

func VH_C17_upload() {
	fx := cache.VHNewFixture()
	mrc := cache.NewMultiRepoCache()
	_, events := mrc.RegisterDefaultRepository(fx.Repo)
	for e := range events {
		rt.Assume(e.Err == nil)
	}
	h := NewGitUploadFileHandler(mrc)

	// the upload: a PNG, a text file, a form without the expected field, or no form at all
	kind := rt.Choose(4)
	var body bytes.Buffer
	ctype := "text/plain"
	var content []byte
	switch kind {
	case 0, 1, 2:
		w := multipart.NewWriter(&body)
		field := "uploadfile"
		content = vhPNG
		if kind == 1 {
			content = []byte("#!/bin/sh\necho not an image\n")
		}
		if kind == 2 {
			field = "other"
		}
		fw, err := w.CreateFormFile(field, "f.bin")
		rt.Assume(err == nil)
		_, _ = fw.Write(content)
		_ = w.Close()
		ctype = w.FormDataContentType()
	default:
		body.WriteString("hello")
	}

	ctx := context.Background()
	who := rt.Choose(4)
	switch who {
	case 0:
		rt.Cover("no-user")
	case 1:
		ctx = context.WithValue(ctx, vhOtherKey{}, fx.Bob)
		rt.Cover("foreign-context-value")
	case 2:
		ctx = auth.CtxWithUser(ctx, entity.Id(strings.Repeat("e", 64)))
		rt.Cover("unknown-user")
	default:
		ctx = auth.CtxWithUser(ctx, fx.Bob)
		rt.Cover("with-user")
	}
	method := "POST"
	if rt.Choose(2) == 1 {
		method = "PUT"
	}
	req := (&http.Request{
		Method: method,
		Header: http.Header{"Content-Type": []string{ctype}},
		Body:   io.NopCloser(bytes.NewReader(body.Bytes())),
	}).WithContext(ctx)
	req.ContentLength = int64(body.Len())

	blobs := len(fx.Repo.Blobs)
	fx.Repo.Log = nil
	fx.Repo.FS.Log = nil
	rec := &vhRecorder{hdr: http.Header{}}
	h.ServeHTTP(rec, req)

	unchanged := len(fx.Repo.Log) == 0 && len(fx.Repo.FS.Log) == 0 && len(fx.Repo.Blobs) == blobs
	switch {
	case who <= 1:
		rt.Assert(rec.status == http.StatusForbidden, "upload-refused-without-user")
		rt.Assert(unchanged, "repository-unchanged-without-user")
	case who == 2:
		rt.Assert(rec.status >= 400, "upload-refused-for-unknown-user")
		rt.Assert(unchanged, "repository-unchanged-for-unknown-user")
	case kind == 0:
		rt.Assert(rec.status == 200, "image-upload-accepted")
		rt.Assert(len(fx.Repo.Blobs) == blobs+1, "one-blob-stored")
		found := false
		for hash, data := range fx.Repo.Blobs {
			if bytes.Equal(data, content) {
				found = true
				rt.Assert(strings.Contains(rec.body.String(), string(hash)), "response-names-the-stored-blob")
			}
		}
		rt.Assert(found, "stored-blob-is-the-upload")
		rt.Cover("stored")
	default:
		rt.Assert(rec.status == http.StatusBadRequest, "bad-upload-refused")
		rt.Assert(unchanged, "repository-unchanged-after-bad-upload")
		rt.Cover("bad-upload")
	}
	rt.Observe("status", rec.status)

	// Whatever the first request was (in particular an accepted, authenticated one), a
	// later request without a user on the same handler, cache and process is refused and
	// changes nothing: authentication is a fact about the request, never about the server.
	var body2 bytes.Buffer
	w2 := multipart.NewWriter(&body2)
	fw2, err2 := w2.CreateFormFile("uploadfile", "g.bin")
	rt.Assume(err2 == nil)
	_, _ = fw2.Write(append(append([]byte{}, vhPNG...), 'x'))
	_ = w2.Close()
	req2 := (&http.Request{
		Method: "POST",
		Header: http.Header{"Content-Type": []string{w2.FormDataContentType()}},
		Body:   io.NopCloser(bytes.NewReader(body2.Bytes())),
	}).WithContext(context.Background())
	req2.ContentLength = int64(body2.Len())
	blobs = len(fx.Repo.Blobs)
	fx.Repo.Log = nil
	fx.Repo.FS.Log = nil
	rec2 := &vhRecorder{hdr: http.Header{}}
	h.ServeHTTP(rec2, req2)
	rt.Observe("status2", rec2.status)
	rt.Assert(rec2.status == http.StatusForbidden, "later-anonymous-upload-refused")
	rt.Assert(len(fx.Repo.Log) == 0 && len(fx.Repo.FS.Log) == 0 && len(fx.Repo.Blobs) == blobs, "repository-unchanged-by-later-anonymous-upload")
}
