package identity

import (
	"sync"

	"github.com/ProtonMail/go-crypto/openpgp"
)

var (
	vhEntitiesMu sync.Mutex
	vhEntities   = map[*Key]*openpgp.Entity{}
)

// PGPEntity (M-PGP): harness keys carry no key material; each of them stands for one
// stable OpenPGP entity (so that "signed by this key" is pointer identity). Real keys use
// the real code.
func (k *Key) PGPEntity() *openpgp.Entity {
	if k.public == nil {
		vhEntitiesMu.Lock()
		defer vhEntitiesMu.Unlock()
		e, ok := vhEntities[k]
		if !ok {
			// a usable entity: it carries an identity (readOperationPack leaves entities
			// without one out of the keyring, see Key.PGPEntity)
			e = &openpgp.Entity{Identities: map[string]*openpgp.Identity{"vh": {Name: "vh"}}}
			vhEntities[k] = e
		}
		return e
	}
	return k.PGPEntity__orig()
}
