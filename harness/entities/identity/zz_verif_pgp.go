package identity

import "github.com/ProtonMail/go-crypto/openpgp"

// PGPEntity (M-PGP): harness keys carry no key material; real keys use the real code.
func (k *Key) PGPEntity() *openpgp.Entity {
	if k.public == nil {
		return &openpgp.Entity{}
	}
	return k.PGPEntity__orig()
}
