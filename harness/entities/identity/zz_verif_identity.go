package identity

// C08/C09 harnesses on the real identity code. The JSON codec of versions is cut by
// M-PACK (version.MarshalJSON / UnmarshalJSON are replaced through the rename overlay:
// a stored version is an opaque blob that remembers the version).

import (
	"fmt"

	"github.com/MichaelMure/git-bug/entity"
	"github.com/MichaelMure/git-bug/repository"
	"github.com/MichaelMure/git-bug/util/lamport"
	"github.com/MichaelMure/git-bug/zzverif/rt"
	"github.com/MichaelMure/git-bug/zzverif/vreg"
	"github.com/MichaelMure/git-bug/zzverif/vrepo"
)

var (
	vhVersions map[string]*version // blob token -> stored version
	vhTokens   map[*version]string
	vhNextTok  int
)

func vhReset() {
	vreg.Mu.Lock()
	vhVersions = map[string]*version{}
	vhTokens = map[*version]string{}
	vhNextTok = 0
	vreg.Mu.Unlock()
	vreg.Reset()
}

func vhHexId(n int) entity.Id { return entity.Id(fmt.Sprintf("%064x", n)) }

// vhSameContent: the serialised fields of two versions are equal.
func vhSameContent(a, b *version) bool {
	if a.name != b.name || a.email != b.email || a.login != b.login || a.avatarURL != b.avatarURL || a.unixTime != b.unixTime {
		return false
	}
	if len(a.times) != len(b.times) || len(a.metadata) != len(b.metadata) || len(a.keys) != len(b.keys) || len(a.nonce) != len(b.nonce) {
		return false
	}
	for k, v := range a.times {
		if w, ok := b.times[k]; !ok || w != v {
			return false
		}
	}
	for k, v := range a.metadata {
		if w, ok := b.metadata[k]; !ok || w != v {
			return false
		}
	}
	for k := range a.keys {
		if a.keys[k] != b.keys[k] {
			return false
		}
	}
	for k := range a.nonce {
		if a.nonce[k] != b.nonce[k] {
			return false
		}
	}
	return true
}

// MarshalJSON (M-PACK write side): the serialisation is an opaque blob that remembers
// the version; it is a function of the version's content (a version whose fields changed
// since it was last serialised gets new bytes, hence a new id).
func (v *version) MarshalJSON() ([]byte, error) {
	vreg.Mu.Lock()
	defer vreg.Mu.Unlock()
	tok, ok := vhTokens[v]
	if ok && !vhSameContent(vhVersions[tok], v) {
		ok = false
	}
	if !ok {
		vhNextTok++
		tok = fmt.Sprintf("\"vhversion:%d\"", vhNextTok)
		vhTokens[v] = tok
		cp := *v
		cp.metadata = map[string]string{}
		for k, val := range v.metadata {
			cp.metadata[k] = val
		}
		if v.metadata == nil {
			cp.metadata = nil
		}
		cp.times = map[string]lamport.Time{}
		for k, val := range v.times {
			cp.times[k] = val
		}
		if v.times == nil {
			cp.times = nil
		}
		cp.keys = append([]*Key(nil), v.keys...)
		vhVersions[tok] = &cp
		vreg.BlobIds[tok] = string(vhHexId(0x5000 + vhNextTok))
	}
	return []byte(tok), nil
}

// UnmarshalJSON (M-PACK read side).
func (v *version) UnmarshalJSON(data []byte) error {
	vreg.Mu.Lock()
	src, ok := vhVersions[string(data)]
	vreg.Mu.Unlock()
	if !ok {
		return fmt.Errorf("vh: undecodable identity version")
	}
	ch := v.commitHash
	*v = *src
	v.commitHash = ch
	v.id = entity.DeriveId(data)
	return nil
}

// vhStoreVersion writes a version as one commit on top of parent and returns its hash.
func vhStoreVersion(r *vrepo.Repo, v *version, parent repository.Hash) repository.Hash {
	data, _ := v.MarshalJSON()
	blob := r.AddBlob(data)
	tree := r.AddTree([]repository.TreeEntry{{ObjectType: repository.Blob, Hash: blob, Name: versionEntryName}})
	var h repository.Hash
	if parent == "" {
		h = r.AddCommit(tree)
	} else {
		h = r.AddCommit(tree, parent)
	}
	v.commitHash = h
	v.id = entity.DeriveId(data)
	return h
}

func vhNewVersion(n int) *version {
	return &version{name: fmt.Sprintf("v%d", n), nonce: make([]byte, 20), unixTime: 1, id: entity.UnsetId}
}

// vhChain stores a chain of k versions and returns them (ids/hashes set).
func vhChain(r *vrepo.Repo, base []*version, k int, tag int) []*version {
	out := append([]*version{}, base...)
	var parent repository.Hash
	if len(out) > 0 {
		parent = out[len(out)-1].commitHash
	}
	for j := 0; j < k; j++ {
		v := vhNewVersion(tag*10 + j)
		parent = vhStoreVersion(r, v, parent)
		out = append(out, v)
	}
	return out
}

func vhCopyVersions(vs []*version) []*version {
	out := make([]*version, len(vs))
	for i, v := range vs {
		cp := *v
		out[i] = &cp
	}
	return out
}

// VH_C09_merge: Identity.Merge on local = P.A, remote = P.B.
func VH_C09_merge() {
	vhReset()
	r := vrepo.New()
	max := rt.Param("V", 4)
	p := 1 + rt.Choose(max-1)
	a := rt.Choose(max - p + 1)
	b := rt.Choose(max - p + 1)
	prefix := vhChain(r, nil, p, 1)
	localV := vhChain(r, prefix, a, 2)
	remotePrefix := vhCopyVersions(prefix)
	foreign := rt.Choose(3) == 2
	if foreign {
		// the remote re-committed the very same first version (same id) as another commit:
		// a different history under the same identity id
		remotePrefix[0].commitHash = r.AddCommit(r.AddTree(nil))
		rt.Cover("foreign-root-same-id")
	}
	remoteV := vhChain(r, remotePrefix, b, 3)
	local := &Identity{versions: localV}
	remote := &Identity{versions: remoteV}
	id := local.Id()
	ref := identityRefPattern + id.String()
	r.SetRef(ref, localV[len(localV)-1].commitHash)
	before := append([]*version{}, local.versions...)
	r.Log = nil

	var updated bool
	var err error
	panicked, _ := rt.Try(func() { updated, err = local.Merge(r, remote) })
	rt.Assert(!panicked, "merge-no-panic")
	rt.Assert(local.Id() == id, "id-unchanged-by-merge")
	head, _ := r.ResolveRef(ref)
	switch {
	case foreign:
		rt.Assert(err != nil, "foreign-history-refused")
		rt.Assert(head == before[len(before)-1].commitHash && len(r.Log) == 0, "foreign-history-ref-untouched")
		rt.Assert(len(local.versions) == len(before), "foreign-history-local-untouched")
	case b == 0:
		rt.Cover("remote-not-ahead")
		rt.Assert(err == nil && !updated, "nothing-to-merge-reported")
		rt.Assert(len(local.versions) == len(before) && head == before[len(before)-1].commitHash && len(r.Log) == 0, "nothing-changes")
	case a == 0:
		rt.Cover("fast-forward")
		rt.Assert(err == nil, "fast-forward-accepted")
		rt.Assert(len(local.versions) == len(remoteV), "local-becomes-remote")
		for j := range remoteV {
			if j < len(local.versions) {
				rt.Assert(local.versions[j].commitHash == remoteV[j].commitHash, "local-becomes-remote-versions")
			}
		}
		rt.Assert(head == remoteV[len(remoteV)-1].commitHash, "ref-moved-to-last-version")
		rt.Assert(updated, "fast-forward-reported-updated")
	default:
		rt.Cover("diverged")
		rt.Assert(err == ErrNonFastForwardMerge, "diverged-refused")
		rt.Assert(head == before[len(before)-1].commitHash && len(r.Log) == 0, "diverged-ref-untouched")
		rt.Assert(len(local.versions) == len(before), "diverged-local-untouched")
	}
	// history only grows by appending
	for j := range before {
		rt.Assert(j < len(local.versions) && local.versions[j].commitHash == before[j].commitHash, "append-only")
	}
	rt.Observe("p", p)
}

// VH_C09_mergeall: the real MergeAll over two remote identities: one refused (diverged)
// does not stop the other being merged; reports agree with what changed.
func VH_C09_mergeall() {
	vhReset()
	r := vrepo.New()
	mk := func(tag int, kind int) (entity.Id, []*version, []*version) {
		prefix := vhChain(r, nil, 1, tag)
		var lv, rv []*version
		switch kind {
		case 0: // remote ahead
			lv = prefix
			rv = vhChain(r, vhCopyVersions(prefix), 1, tag+1)
		case 1: // diverged
			lv = vhChain(r, prefix, 1, tag+2)
			rv = vhChain(r, vhCopyVersions(prefix), 1, tag+3)
		case 2: // equal
			lv, rv = prefix, prefix
		default: // not local yet
			rv = vhChain(r, vhCopyVersions(prefix), 1, tag+4)
		}
		id := prefix[0].id
		if lv != nil {
			r.SetRef(identityRefPattern+id.String(), lv[len(lv)-1].commitHash)
		}
		r.SetRef(fmt.Sprintf(identityRemoteRefPattern, "origin")+id.String(), rv[len(rv)-1].commitHash)
		return id, lv, rv
	}
	k1 := rt.Choose(4)
	k2 := rt.Choose(4)
	id1, _, rv1 := mk(10, k1)
	id2, _, rv2 := mk(20, k2)
	r.ReverseRefs = rt.Choose(2) == 1
	results := map[entity.Id]entity.MergeResult{}
	n := 0
	panicked, _ := rt.Try(func() {
		for res := range MergeAll(r, "origin") {
			results[res.Id] = res
			n++
		}
	})
	rt.Assert(!panicked, "mergeall-no-panic")
	rt.Assert(n == 2, "every-remote-identity-processed")
	check := func(id entity.Id, kind int, rv []*version) {
		res, ok := results[id]
		rt.Assert(ok, "identity-reported")
		if !ok {
			return
		}
		head, herr := r.ResolveRef(identityRefPattern + id.String())
		switch kind {
		case 0:
			rt.Assert(res.Status == entity.MergeStatusUpdated, "remote-ahead-reported-updated")
			rt.Assert(herr == nil && head == rv[len(rv)-1].commitHash, "remote-ahead-ref-moved")
		case 1:
			rt.Assert(res.Status == entity.MergeStatusInvalid, "diverged-reported-invalid")
			rt.Assert(herr == nil && head != rv[len(rv)-1].commitHash, "diverged-local-kept")
			rt.Cover("one-refused")
		case 2:
			rt.Assert(res.Status == entity.MergeStatusNothing, "equal-reported-nothing")
		default:
			rt.Assert(res.Status == entity.MergeStatusNew, "new-reported-new")
			rt.Assert(herr == nil && head == rv[len(rv)-1].commitHash, "new-ref-created")
		}
	}
	check(id1, k1, rv1)
	check(id2, k2, rv2)
	rt.Observe("k1", k1)
}

// VH_C09_validate: clocks never decrease nor disappear across versions; a version needs
// a name or a login; no control characters.
func VH_C09_validate() {
	nv := 1 + rt.Choose(rt.Param("V", 3))
	names := []string{"bugs-edit", "bugs-create"}
	i := &Identity{}
	type rec struct {
		has [2]bool
		t   [2]uint64
	}
	var recs []rec
	wantClocks := true
	var last [2]uint64
	var seen [2]bool
	for k := 0; k < nv; k++ {
		v := vhNewVersion(k)
		v.times = map[string]lamport.Time{}
		var rc rec
		for c := 0; c < 2; c++ {
			if rt.Choose(2) == 1 {
				rc.has[c] = true
				rc.t[c] = rt.NondetUint64()
				v.times[names[c]] = lamport.Time(rc.t[c])
			}
		}
		for c := 0; c < 2; c++ {
			if seen[c] {
				if !rc.has[c] {
					wantClocks = false
				} else {
					wantClocks = rt.And(wantClocks, rc.t[c] >= last[c])
				}
			}
			if rc.has[c] {
				seen[c] = true
				last[c] = rc.t[c]
			}
		}
		recs = append(recs, rc)
		i.versions = append(i.versions, v)
	}
	// one version may have a symbolic name/login (TEXT = 0: clocks only)
	sl := rt.Param("SL", 2)
	if rt.Param("TEXT", 1) == 0 {
		err := i.Validate()
		rt.Assert((err == nil) == wantClocks, "validate-iff-documented-rules")
		if err == nil {
			rt.Cover("valid")
		} else {
			rt.Cover("invalid")
		}
		return
	}
	w := rt.Choose(nv)
	name := rt.NondetString(sl)
	login := rt.NondetString(1)
	for j := 0; j < len(name); j++ {
		rt.Assume(name[j] < 0x80)
	}
	for j := 0; j < len(login); j++ {
		rt.Assume(login[j] < 0x80)
	}
	i.versions[w].name = name
	i.versions[w].login = login
	ctrl := func(s string) bool {
		r := false
		for j := 0; j < len(s); j++ {
			r = rt.Or(r, rt.Or(s[j] < 0x20, s[j] == 0x7f))
		}
		return r
	}
	blank := func(s string) bool {
		r := true
		for j := 0; j < len(s); j++ {
			// ASCII: space, control characters and DEL are not "content"
			r = rt.And(r, rt.Or(s[j] <= 0x20, s[j] == 0x7f))
		}
		return r
	}
	wantText := rt.And(rt.Not(rt.And(blank(name), blank(login))), rt.Not(rt.Or(ctrl(name), ctrl(login))))
	err := i.Validate()
	rt.Assert((err == nil) == rt.And(wantClocks, wantText), "validate-iff-documented-rules")
	if err == nil {
		rt.Cover("valid")
	} else {
		rt.Cover("invalid")
	}
	_ = recs
}

// VH_C09_commit: Identity.Commit appends one commit per uncommitted version on top of
// the last committed one and moves the ref last; the id never changes.
func VH_C09_commit() {
	vhReset()
	r := vrepo.New()
	k := rt.Choose(3)      // committed versions
	u := 1 + rt.Choose(2)  // uncommitted versions
	var vs []*version
	if k > 0 {
		vs = vhChain(r, nil, k, 1)
	}
	for j := 0; j < u; j++ {
		vs = append(vs, vhNewVersion(50+j))
	}
	i := &Identity{versions: vs}
	var oldHead repository.Hash
	if k > 0 {
		oldHead = vs[k-1].commitHash
		r.SetRef(identityRefPattern+i.Id().String(), oldHead)
	}
	r.Log = nil
	err := i.Commit(r)
	rt.Assert(err == nil, "commit-valid-identity")
	if err != nil {
		return
	}
	id := i.Id()
	rt.Assert(id == vs[0].Id(), "id-is-first-version-id")
	head, herr := r.ResolveRef(identityRefPattern + id.String())
	rt.Assert(herr == nil && head == vs[len(vs)-1].commitHash, "ref-at-last-version")
	// chain: each new version's commit has the previous version's commit as single parent
	for j := k; j < len(vs); j++ {
		c, cerr := r.ReadCommit(vs[j].commitHash)
		rt.Assert(cerr == nil, "version-commit-stored")
		if j == 0 {
			rt.Assert(len(c.Parents) == 0, "first-version-is-root")
		} else {
			rt.Assert(len(c.Parents) == 1 && c.Parents[0] == vs[j-1].commitHash, "appended-on-top")
		}
	}
	nref := 0
	for idx, l := range r.Log {
		if len(l) > 9 && l[:9] == "UpdateRef" {
			nref++
			rt.Assert(idx == len(r.Log)-1, "ref-update-last")
		}
	}
	rt.Assert(nref == 1, "one-ref-update")
	// reading back gives the same chain and id
	back, rerr := ReadLocal(r, id)
	rt.Assert(rerr == nil, "committed-identity-readable")
	if rerr == nil {
		rt.Assert(back.Id() == id && len(back.versions) == len(vs), "read-back-same-chain")
	}
	rt.Assert(!i.NeedCommit(), "nothing-left-to-commit")
	rt.Cover("committed")
}

// VH_C08_keys: keys valid at time T are those of the last version whose effective time
// is <= T (a version without an entry for the clock inherits the previous time); none
// before the first version.
func VH_C08_keys() {
	nv := 1 + rt.Choose(rt.Param("V", 3))
	keys := []*Key{{}, {}, {}}
	const clock = "bugs-edit"
	i := &Identity{}
	var eff []uint64
	var ks [][]*Key
	var lastT uint64
	for k := 0; k < nv; k++ {
		v := vhNewVersion(k)
		v.times = map[string]lamport.Time{}
		t := lastT
		if rt.Choose(2) == 1 {
			t = rt.NondetUint64()
			rt.Assume(t >= lastT) // Validate's invariant: clocks never decrease
			v.times[clock] = lamport.Time(t)
		}
		lastT = t
		// key set: a subset of the three keys
		var set []*Key
		m := rt.Choose(8)
		for b := 0; b < 3; b++ {
			if m&(1<<b) != 0 {
				set = append(set, keys[b])
			}
		}
		v.keys = set
		eff = append(eff, t)
		ks = append(ks, set)
		i.versions = append(i.versions, v)
	}
	T := rt.NondetUint64()
	got := i.ValidKeysAtTime(clock, lamport.Time(T))
	// reference: last version with effective time <= T
	sel := -1
	for k := 0; k < nv; k++ {
		if eff[k] <= T {
			sel = k
		} else {
			break
		}
	}
	if sel < 0 {
		rt.Cover("before-first-version")
		rt.Assert(len(got) == 0, "no-key-before-first-version")
	} else {
		rt.Cover("some-version-in-force")
		want := ks[sel]
		rt.Assert(len(got) == len(want), "keys-of-version-in-force-count")
		for j := range want {
			if j < len(got) {
				rt.Assert(got[j] == want[j], "keys-of-version-in-force")
			}
		}
		if sel < nv-1 {
			rt.Cover("later-version-not-yet-in-force")
		}
	}
	rt.Observe("sel", sel)
}

// VH_C14_identity: identity.Remove deletes the identity's local ref and its tracking refs
// for every configured remote and nothing else; repeating it does no further harm.
func VH_C14_identity() {
	r := vrepo.New()
	h := r.AddCommit(r.AddTree(nil))
	id := vhHexId(0x7000)
	sibling := entity.Id(string(id)[:63] + "f")
	remoteNames := []string{"origin", "up"}
	nr := rt.Choose(len(remoteNames) + 1)
	for k := 0; k < nr; k++ {
		r.Remotes[remoteNames[k]] = "url"
	}
	var mine, others []string
	add := func(name string, isMine bool) {
		if rt.Choose(2) == 1 {
			r.SetRef(name, h)
			if isMine {
				mine = append(mine, name)
			} else {
				others = append(others, name)
			}
		}
	}
	add(identityRefPattern+id.String(), true)
	for k := 0; k < nr; k++ {
		add(fmt.Sprintf(identityRemoteRefPattern, remoteNames[k])+id.String(), true)
	}
	add(identityRefPattern+sibling.String(), false)
	add(fmt.Sprintf(identityRemoteRefPattern, "unconfigured")+id.String(), false)
	add("refs/bugs/"+id.String(), false)
	add("refs/heads/master", false)
	var err error
	panicked, _ := rt.Try(func() { err = Remove(r, id) })
	rt.Assert(!panicked, "identity-remove-no-panic")
	if len(mine) > 0 {
		rt.Assert(err == nil, "identity-remove-succeeds")
		rt.Cover("removed")
	} else {
		rt.Assert(err == nil || entity.IsErrNotFound(err), "absent-identity-reported")
	}
	for _, m := range mine {
		ok, _ := r.RefExist(m)
		rt.Assert(!ok, "identity-ref-removed")
	}
	for _, o := range others {
		ok, _ := r.RefExist(o)
		rt.Assert(ok, "other-ref-kept")
	}
	n := len(r.Refs)
	err2 := Remove(r, id)
	rt.Assert(err2 == nil || entity.IsErrNotFound(err2), "second-remove-harmless")
	rt.Assert(len(r.Refs) == n, "second-remove-changes-nothing")
}

// ---- exported entry points for harnesses of other packages ----

// VHReset clears the identity M-PACK registry.
func VHReset() { vhReset() }

// VHStoreIdentity stores an identity with n versions on the model repository and, when
// local is set, points its local ref at the last version. With remote != "" the
// remote-tracking ref is set too.
func VHStoreIdentity(r *vrepo.Repo, name string, n int, local bool, remote string) *Identity {
	return VHStoreIdentityMeta(r, name, n, local, remote, nil)
}

// VHStoreIdentityMeta is VHStoreIdentity with metadata on the first version.
func VHStoreIdentityMeta(r *vrepo.Repo, name string, n int, local bool, remote string, meta map[string]string) *Identity {
	var vs []*version
	var parent repository.Hash
	for j := 0; j < n; j++ {
		v := &version{name: name, nonce: make([]byte, 20), unixTime: 1, id: entity.UnsetId}
		if j == 0 {
			v.metadata = meta
		}
		parent = vhStoreVersion(r, v, parent)
		vs = append(vs, v)
	}
	i := &Identity{versions: vs}
	if local {
		r.SetRef(identityRefPattern+i.Id().String(), parent)
	}
	if remote != "" {
		r.SetRef(fmt.Sprintf(identityRemoteRefPattern, remote)+i.Id().String(), parent)
	}
	return i
}

// VHAppendVersion stores one more version of i (new name) and returns its commit hash;
// refs are left to the caller.
func VHAppendVersion(r *vrepo.Repo, i *Identity, name string) repository.Hash {
	v := &version{name: name, nonce: make([]byte, 20), unixTime: 2, id: entity.UnsetId}
	h := vhStoreVersion(r, v, i.versions[len(i.versions)-1].commitHash)
	return h
}

func VHLocalRef(id entity.Id) string              { return identityRefPattern + id.String() }
func VHRemoteRef(remote string, id entity.Id) string { return fmt.Sprintf(identityRemoteRefPattern, remote) + id.String() }

// VH_C07_identity: MergeAll against a hostile remote identity (one structural mutation
// from the catalogue) next to a healthy one: no crash, the bad one is reported invalid,
// no local ref changes for it, and the healthy one is still merged.
func VH_C07_identity() {
	vhReset()
	r := vrepo.New()
	// healthy remote identity, ahead of the local one
	good := vhChain(r, nil, 1, 1)
	goodRemote := vhChain(r, vhCopyVersions(good), 1, 2)
	goodId := good[0].id
	r.SetRef(identityRefPattern+goodId.String(), good[0].commitHash)
	r.SetRef(fmt.Sprintf(identityRemoteRefPattern, "origin")+goodId.String(), goodRemote[1].commitHash)

	// hostile remote identity
	bad := vhNewVersion(50)
	mut := rt.Choose(8)
	var head repository.Hash
	data, _ := bad.MarshalJSON()
	blob := r.AddBlob(data)
	id := entity.DeriveId(data)
	hasLocal := rt.Choose(2) == 1
	var localHead repository.Hash
	if hasLocal && mut != 7 {
		lv := vhChain(r, nil, 1, 7)
		id = lv[0].id
		localHead = lv[0].commitHash
		r.SetRef(identityRefPattern+id.String(), localHead)
		// the remote claims to be that identity
	}
	switch mut {
	case 0: // two tree entries
		head = r.AddCommit(r.AddTree([]repository.TreeEntry{{ObjectType: repository.Blob, Hash: blob, Name: versionEntryName}, {ObjectType: repository.Blob, Hash: blob, Name: "extra"}}))
		rt.Cover("extra-tree-entry")
	case 1: // wrong entry name
		head = r.AddCommit(r.AddTree([]repository.TreeEntry{{ObjectType: repository.Blob, Hash: blob, Name: "not-version"}}))
		rt.Cover("wrong-entry-name")
	case 2: // empty tree
		head = r.AddCommit(r.AddTree(nil))
		rt.Cover("empty-tree")
	case 3: // undecodable version blob
		junk := r.AddBlob([]byte("\"junk\""))
		head = r.AddCommit(r.AddTree([]repository.TreeEntry{{ObjectType: repository.Blob, Hash: junk, Name: versionEntryName}}))
		rt.Cover("undecodable-version")
	case 4: // a version that does not validate (no name, no login)
		v := vhNewVersion(51)
		v.name = ""
		head = vhStoreVersion(r, v, "")
		if !hasLocal {
			id = v.id
		}
		rt.Cover("invalid-version")
	case 5: // a key list holding a null key (what "pub_keys":[null] decodes to)
		v := vhNewVersion(52)
		v.keys = []*Key{nil}
		head = vhStoreVersion(r, v, "")
		if !hasLocal {
			id = v.id
		}
		rt.Cover("null-key")
	case 6: // ref named after another id than the first version's
		v := vhNewVersion(53)
		head = vhStoreVersion(r, v, "")
		if !hasLocal {
			id = vhHexId(0x9999)
		}
		rt.Cover("ref-name-mismatch")
	default: // dangling blob
		head = r.AddCommit(r.AddTree([]repository.TreeEntry{{ObjectType: repository.Blob, Hash: repository.Hash("00000000000000000000000000000000000000ba"), Name: versionEntryName}}))
		rt.Cover("dangling-blob")
	}
	badRemoteRef := fmt.Sprintf(identityRemoteRefPattern, "origin") + id.String()
	r.SetRef(badRemoteRef, head)
	r.ReverseRefs = rt.Choose(2) == 1
	r.Log = nil
	results := map[entity.Id]entity.MergeResult{}
	panicked, _ := rt.Try(func() {
		for res := range MergeAll(r, "origin") {
			results[res.Id] = res
		}
	})
	rt.Assert(!panicked, "hostile-identity-no-crash")
	if panicked {
		return
	}
	res, ok := results[id]
	rt.Assert(ok, "hostile-identity-reported")
	if ok {
		rt.Assert(res.Status == entity.MergeStatusInvalid, "hostile-identity-reported-invalid")
	}
	if hasLocal && mut != 7 {
		h, herr := r.ResolveRef(identityRefPattern + id.String())
		rt.Assert(herr == nil && h == localHead, "local-identity-untouched")
	} else {
		exists, _ := r.RefExist(identityRefPattern + id.String())
		rt.Assert(!exists, "no-local-ref-created-for-hostile-identity")
	}
	g, gok := results[goodId]
	rt.Assert(gok && g.Status == entity.MergeStatusUpdated, "healthy-identity-still-merged")
}

// VH_C06_identity: the process dies before the k-th storage call of Identity.Commit (new
// identity or new versions of a stored one). After the restart the identity is either
// absent / at its old version chain or at its new one, readable, and committing again
// completes the step.
func VH_C06_identity() {
	vhReset()
	r := vrepo.New()
	k := rt.Choose(3)     // committed versions
	u := 1 + rt.Choose(2) // uncommitted versions
	var vs []*version
	if k > 0 {
		vs = vhChain(r, nil, k, 1)
	}
	for j := 0; j < u; j++ {
		vs = append(vs, vhNewVersion(50+j))
	}
	i := &Identity{versions: vs}
	ref := ""
	if k > 0 {
		ref = identityRefPattern + i.Id().String()
		r.SetRef(ref, vs[k-1].commitHash)
	}
	crashAt := rt.Choose(rt.Param("K", 8))
	r.Mutations = 0
	r.CrashAfter = crashAt
	var err error
	crashed, pv := rt.Try(func() { err = i.Commit(r) })
	if crashed {
		if _, isCrash := pv.(vrepo.Crash); !isCrash {
			rt.Assert(false, "identity-commit-no-panic")
			return
		}
		rt.Cover("crashed")
	} else {
		rt.Assert(err == nil, "commit-valid-identity")
		rt.Cover("completed")
	}
	r.Restart()
	id := vs[0].Id()
	if ref == "" {
		ref = identityRefPattern + id.String()
	}
	back, rerr := ReadLocal(r, id)
	if rerr != nil {
		// only a brand new identity may be absent
		rt.Assert(k == 0 && crashed, "stored-identity-readable-after-crash")
		exists, _ := r.RefExist(ref)
		rt.Assert(!exists, "no-dangling-identity-ref")
		rt.Cover("absent")
	} else {
		n := len(back.versions)
		rt.Assert(n == k || n == k+u, "old-or-new-chain-never-a-mixture")
		if !crashed {
			rt.Assert(n == k+u, "completed-commit-is-stored")
		}
		for j := 0; j < n && j < len(vs); j++ {
			rt.Assert(back.versions[j].Id() == vs[j].Id(), "chain-holds-the-same-versions")
		}
	}
	// repeating the step completes it
	if crashed {
		// the same pending versions (a new process would rebuild them from the same user
		// input; M-PACK identifies a version with its object)
		for j := k; j < len(vs); j++ {
			vs[j].commitHash = ""
		}
		again := &Identity{versions: vs}
		rt.Assert(again.Commit(r) == nil, "repeating-the-commit-succeeds")
		fin, ferr := ReadLocal(r, id)
		rt.Assert(ferr == nil && len(fin.versions) == k+u, "repeated-commit-reaches-the-new-state")
	}
	rt.Observe("k", k)
}


// VH_C09_mutate: an identity's id never changes and its history only grows, through the
// editing API: a new identity goes through K steps out of {ask for its id, SetMetadata,
// Mutate (rename), Commit}; whenever the id has been observed it stays the same, committed
// versions are never altered, and after a commit the identity reads back under that id
// with all its versions.
func VH_C09_mutate() {
	vhReset()
	r := vrepo.New()
	i, err := NewIdentityFull(r, "n0", "e@example.org", "", "", nil)
	rt.Assert(err == nil, "new-identity")
	if err != nil {
		return
	}
	var seen entity.Id
	var committed []entity.Id // ids of the versions stored so far
	steps := rt.Param("K", 4)
	for s := 0; s < steps; s++ {
		switch rt.Choose(4) {
		case 0:
			id := i.Id()
			if seen != "" {
				rt.Assert(id == seen, "identity-id-never-changes")
			}
			seen = id
			rt.Cover("id-observed")
		case 1:
			i.SetMetadata(fmt.Sprintf("k%d", s), "v")
			rt.Cover("set-metadata")
		case 2:
			name := fmt.Sprintf("n%d", s+1)
			rt.Assert(i.Mutate(r, func(m *Mutator) { m.Name = name }) == nil, "mutate")
			rt.Cover("mutate")
		default:
			if !i.NeedCommit() {
				continue
			}
			rt.Assert(i.Commit(r) == nil, "commit-valid-identity")
			id := i.Id()
			if seen != "" {
				rt.Assert(id == seen, "identity-id-never-changes")
			}
			seen = id
			back, rerr := ReadLocal(r, id)
			rt.Assert(rerr == nil, "committed-identity-reads-back-under-its-id")
			if rerr == nil {
				rt.Assert(len(back.versions) >= len(committed), "history-only-grows")
				for k, vid := range committed {
					if k < len(back.versions) {
						rt.Assert(back.versions[k].Id() == vid, "committed-versions-never-change")
					}
				}
				committed = committed[:0]
				for _, v := range back.versions {
					committed = append(committed, v.Id())
				}
			}
			rt.Cover("commit")
		}
	}
	rt.Observe("versions", len(i.versions))
}
