package identity

// M-PGP, keyring side: which harness keys have their private part in the keyring. Real
// keys (with key material) use the real code.

import (
	"fmt"

	"github.com/ProtonMail/go-crypto/openpgp/packet"

	"github.com/MichaelMure/git-bug/entity"
	"github.com/MichaelMure/git-bug/repository"
	"github.com/MichaelMure/git-bug/util/lamport"
)

var (
	vhPrivate      map[*Key]bool
	vhKeyringFails *Key
)

func (k *Key) loadPrivate(repo repository.RepoKeyring) error {
	if k.public != nil {
		return k.loadPrivate__orig(repo)
	}
	if k == vhKeyringFails {
		return fmt.Errorf("vh: keyring failure")
	}
	if vhPrivate[k] {
		k.private = &packet.PrivateKey{}
		return nil
	}
	return errNoPrivateKey
}

// VHNewKeys returns n harness keys (no key material).
func VHNewKeys(n int) []*Key {
	out := make([]*Key, n)
	for i := range out {
		out[i] = &Key{}
	}
	return out
}

// VHSetKeyring states which keys have their private part in the keyring and for which key
// (nil: none) the keyring fails with an error.
func VHSetKeyring(private []*Key, fails *Key) {
	vhPrivate = map[*Key]bool{}
	for _, k := range private {
		vhPrivate[k] = true
	}
	vhKeyringFails = fails
}

// VHKeyedIdentity builds an identity whose k-th version holds the key set sets[k] and,
// when hasTime[k], records times[k] for the given clock.
func VHKeyedIdentity(n int, clock string, sets [][]*Key, times []uint64, hasTime []bool) *Identity {
	i := &Identity{}
	for k := range sets {
		v := &version{name: fmt.Sprintf("k%d", n), nonce: make([]byte, 20), unixTime: 1}
		v.id = entity.Id(fmt.Sprintf("%064x", 0x6000+n*16+k))
		v.times = map[string]lamport.Time{}
		if hasTime[k] {
			v.times[clock] = lamport.Time(times[k])
		}
		v.keys = sets[k]
		i.versions = append(i.versions, v)
	}
	return i
}

// VHPublicOnlyKey returns a key as every other replica sees it: read from the identity
// stored in git, with its public part only.
func VHPublicOnlyKey() *Key { return &Key{public: &packet.PublicKey{}} }
