package bug

import (
	"github.com/MichaelMure/git-bug/entities/identity"
	"github.com/MichaelMure/git-bug/entity"
	"github.com/MichaelMure/git-bug/entity/dag"
)

// VHComment builds a comment with a given combined id (harness helper, overlay only).
func VHComment(id entity.CombinedId, target entity.Id, msg string) Comment {
	return Comment{combinedId: id, targetId: target, Message: msg}
}

// VHSnapshot builds a snapshot with the given id and comments.
func VHSnapshot(id entity.Id, comments []Comment) *Snapshot {
	return &Snapshot{id: id, Comments: comments}
}

// VHCreateOp / VHAddCommentOp / VHSetTitleOp build operations with preset ids (the JSON
// hashing of operations is cut by M-PACK).
func VHCreateOp(author identity.Interface, id entity.Id, title, message string) *CreateOperation {
	return &CreateOperation{OpBase: dag.VHNewOpBase(CreateOp, author, 1, id), Title: title, Message: message}
}

func VHAddCommentOp(author identity.Interface, id entity.Id, message string) *AddCommentOperation {
	return &AddCommentOperation{OpBase: dag.VHNewOpBase(AddCommentOp, author, 2, id), Message: message}
}

func VHSetTitleOp(author identity.Interface, id entity.Id, title, was string) *SetTitleOperation {
	return &SetTitleOperation{OpBase: dag.VHNewOpBase(SetTitleOp, author, 3, id), Title: title, Was: was}
}

func VHLabelOp(author identity.Interface, id entity.Id, added ...string) *LabelChangeOperation {
	var ls []Label
	for _, a := range added {
		ls = append(ls, Label(a))
	}
	return &LabelChangeOperation{OpBase: dag.VHNewOpBase(LabelChangeOp, author, 4, id), Added: ls}
}

const VHFormatVersion = formatVersion

// VHClone: decoding a stored pack yields fresh operation objects (M-PACK read side).
func (op *CreateOperation) VHClone() dag.Operation {
	c := *op
	c.OpBase = dag.VHCloneBase(op.OpBase)
	return &c
}
func (op *AddCommentOperation) VHClone() dag.Operation {
	c := *op
	c.OpBase = dag.VHCloneBase(op.OpBase)
	return &c
}
func (op *EditCommentOperation) VHClone() dag.Operation {
	c := *op
	c.OpBase = dag.VHCloneBase(op.OpBase)
	return &c
}
func (op *LabelChangeOperation) VHClone() dag.Operation {
	c := *op
	c.OpBase = dag.VHCloneBase(op.OpBase)
	return &c
}
func (op *SetStatusOperation) VHClone() dag.Operation {
	c := *op
	c.OpBase = dag.VHCloneBase(op.OpBase)
	return &c
}
func (op *SetTitleOperation) VHClone() dag.Operation {
	c := *op
	c.OpBase = dag.VHCloneBase(op.OpBase)
	return &c
}
