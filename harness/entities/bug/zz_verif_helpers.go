package bug

import "github.com/MichaelMure/git-bug/entity"

// VHComment builds a comment with a given combined id (harness helper, overlay only).
func VHComment(id entity.CombinedId, target entity.Id, msg string) Comment {
	return Comment{combinedId: id, targetId: target, Message: msg}
}

// VHSnapshot builds a snapshot with the given id and comments.
func VHSnapshot(id entity.Id, comments []Comment) *Snapshot {
	return &Snapshot{id: id, Comments: comments}
}
