package bug

// C04 / C15 — "the content of files attached to its operations is stored with it and
// travels with every push and pull": every blob attached to a create, add-comment or
// edit-comment operation is referenced from the tree of the commit that stores the
// operation (otherwise git neither transfers nor keeps it). The real bug operations go
// through the real Bug.Commit -> operationPack.Write -> makeExtraTree.

import (
	"github.com/MichaelMure/git-bug/entity"
	"github.com/MichaelMure/git-bug/entity/dag"
	"github.com/MichaelMure/git-bug/repository"
	"github.com/MichaelMure/git-bug/zzverif/rt"
	"github.com/MichaelMure/git-bug/zzverif/vrepo"
)

func VH_C15_opfiles() {
	dag.VHResetPacks()
	r := vrepo.New()
	author := vhAuthors[0]
	files := []repository.Hash{r.AddBlob([]byte("f0")), r.AddBlob([]byte("f1")), r.AddBlob([]byte("f2"))}
	b := NewBug()
	var attached []repository.Hash
	pick := func(k int) []repository.Hash {
		if rt.Choose(2) == 0 {
			return nil
		}
		attached = append(attached, files[k])
		return []repository.Hash{files[k]}
	}
	create := &CreateOperation{OpBase: dag.VHNewOpBase(CreateOp, author, 1, vhHex(0x5000)), Title: "t", Message: "m", Files: pick(0)}
	b.Append(create)
	b.Append(&AddCommentOperation{OpBase: dag.VHNewOpBase(AddCommentOp, author, 1, vhHex(0x5001)), Message: "c", Files: pick(1)})
	b.Append(&EditCommentOperation{OpBase: dag.VHNewOpBase(EditCommentOp, author, 1, vhHex(0x5002)), Target: create.Id(), Message: "e", Files: pick(2)})
	rt.Assert(b.Commit(r) == nil, "bug-commits")
	head, err := r.ResolveRef("refs/bugs/" + b.Id().String())
	rt.Assert(err == nil, "bug-ref-set")
	if err != nil {
		return
	}
	commit, _ := r.ReadCommit(head)
	tree, _ := r.ReadTree(commit.TreeHash)
	referenced := map[repository.Hash]int{}
	for _, e := range tree {
		if e.ObjectType == repository.Tree {
			sub, _ := r.ReadTree(e.Hash)
			for _, se := range sub {
				referenced[se.Hash]++
			}
		}
	}
	for _, f := range attached {
		rt.Assert(referenced[f] == 1, "every-attached-file-referenced-once")
	}
	if len(attached) > 0 {
		rt.Cover("files-attached")
	}
	rt.Observe("attached", len(attached))
	_ = entity.UnsetId
}
