package bug

// C07 / C16 — content-level validation of remote operations: each operation kind's
// Validate() accepts exactly the documented content (non-empty one-line title without
// control characters, messages without control characters other than tab / CR / LF,
// non-empty one-line labels, a known status, a set time, a nonce of 20..64 bytes, the right
// type tag, a well-formed target id), and Bug.Validate accepts exactly the histories that
// start with their only Create operation and hold valid operations. A remote bug that
// fails it is reported invalid by merge (entity/dag, C07 merge harness).

import (
	"github.com/MichaelMure/git-bug/entities/common"
	"github.com/MichaelMure/git-bug/entity"
	"github.com/MichaelMure/git-bug/entity/dag"
	"github.com/MichaelMure/git-bug/zzverif/rt"
)

func vhASCII(max int) string {
	s := rt.NondetString(max)
	for k := 0; k < len(s); k++ {
		rt.Assume(s[k] < 0x80)
	}
	return s
}

// reference predicates over ASCII (written from the documentation of util/text)
func refEmpty(s string) bool {
	visible := false
	for k := 0; k < len(s); k++ {
		visible = rt.Or(visible, rt.And(s[k] > 0x20, s[k] < 0x7f))
	}
	return rt.Not(visible)
}

func refSafeOneLine(s string) bool {
	ok := true
	for k := 0; k < len(s); k++ {
		ok = rt.And(ok, rt.And(s[k] >= 0x20, s[k] != 0x7f))
	}
	return ok
}

func refSafe(s string) bool {
	ok := true
	for k := 0; k < len(s); k++ {
		c := s[k]
		allowed := rt.Or(rt.Or(c == '\t', c == '\n'), c == '\r')
		ok = rt.And(ok, rt.Or(allowed, rt.And(c >= 0x20, c != 0x7f)))
	}
	return ok
}

func VH_C07_opvalid() {
	L := rt.Param("L", 2)
	// the envelope: type tag, time, nonce length
	kinds := []dag.OperationType{CreateOp, SetTitleOp, AddCommentOp, SetStatusOp, LabelChangeOp, EditCommentOp}
	kind := kinds[rt.Choose(len(kinds))]
	tag := kind
	tagOK := true
	switch rt.Choose(3) {
	case 1:
		tag = 0
		tagOK = false
	case 2:
		tag = kinds[(int(kind)+1)%len(kinds)]
		if tag == kind {
			tag = NoOpOp
		}
		tagOK = false
	}
	unix := rt.NondetInt64()
	nonceLens := []int{0, 19, 20, 64, 65}
	nl := nonceLens[rt.Choose(len(nonceLens))]
	base := dag.VHNewOpBase(tag, vhAuthors[0], unix, vhHex(0x2000))
	base.Nonce = make([]byte, nl)
	envelope := rt.And(rt.And(tagOK, unix != 0), nl >= 20 && nl <= 64)

	var op Operation
	content := true
	switch kind {
	case CreateOp:
		title, msg := vhASCII(L), vhASCII(L)
		op = &CreateOperation{OpBase: base, Title: title, Message: msg}
		content = rt.And(rt.And(rt.Not(refEmpty(title)), refSafeOneLine(title)), refSafe(msg))
		rt.Cover("create")
	case SetTitleOp:
		title, was := vhASCII(L), vhASCII(L)
		op = &SetTitleOperation{OpBase: base, Title: title, Was: was}
		content = rt.And(rt.And(rt.Not(refEmpty(title)), refSafeOneLine(title)), refSafeOneLine(was))
		rt.Cover("set-title")
	case AddCommentOp:
		msg := vhASCII(L)
		op = &AddCommentOperation{OpBase: base, Message: msg}
		content = refSafe(msg)
		rt.Cover("add-comment")
	case SetStatusOp:
		st := common.Status(rt.NondetInt())
		op = &SetStatusOperation{OpBase: base, Status: st}
		content = rt.Or(st == common.OpenStatus, st == common.ClosedStatus)
		rt.Cover("set-status")
	case LabelChangeOp:
		var added, removed []Label
		ok := true
		na, nr := rt.Choose(2), rt.Choose(2)
		for k := 0; k < na; k++ {
			l := vhASCII(L)
			added = append(added, Label(l))
			ok = rt.And(ok, rt.And(rt.Not(refEmpty(l)), refSafeOneLine(l)))
		}
		for k := 0; k < nr; k++ {
			l := vhASCII(L)
			removed = append(removed, Label(l))
			ok = rt.And(ok, rt.And(rt.Not(refEmpty(l)), refSafeOneLine(l)))
		}
		op = &LabelChangeOperation{OpBase: base, Added: added, Removed: removed}
		content = rt.And(ok, na+nr > 0)
		rt.Cover("label-change")
	default:
		msg := vhASCII(L)
		target := vhHex(0x3000)
		targetOK := true
		if rt.Choose(2) == 1 {
			target = entity.Id("not-an-id")
			targetOK = false
		}
		op = &EditCommentOperation{OpBase: base, Target: target, Message: msg}
		content = rt.And(targetOK, refSafe(msg))
		rt.Cover("edit-comment")
	}
	err := op.Validate()
	want := rt.And(envelope, content)
	rt.Assert((err == nil) == want, "operation-valid-iff-documented-content")
	if err == nil {
		rt.Cover("accepted")
	} else {
		rt.Cover("refused")
	}
	rt.Observe("kind", int(kind))
}

// VH_C07_bugvalid: Bug.Validate on histories of 1..K operations of arbitrary kinds.
func VH_C07_bugvalid() {
	K := 1 + rt.Choose(rt.Param("K", 3))
	b := NewBug()
	creates := 0
	firstIsCreate := false
	allValid := true
	dup := false
	for k := 0; k < K; k++ {
		id := vhHex(0x4000 + k)
		if k > 0 && rt.Choose(4) == 0 {
			id = vhHex(0x4000) // the id of the first operation again
			dup = true
		}
		var op Operation
		switch rt.Choose(3) {
		case 0:
			title := "t"
			if rt.Choose(3) == 0 {
				title = "" // invalid content
				allValid = false
			}
			op = &CreateOperation{OpBase: dag.VHNewOpBase(CreateOp, vhAuthors[0], 1, id), Title: title, Message: "m"}
			creates++
			if k == 0 {
				firstIsCreate = true
			}
		case 1:
			msg := "c"
			if rt.Choose(3) == 0 {
				msg = "\x00"
				allValid = false
			}
			op = &AddCommentOperation{OpBase: dag.VHNewOpBase(AddCommentOp, vhAuthors[0], 1, id), Message: msg}
		default:
			op = &SetStatusOperation{OpBase: dag.VHNewOpBase(SetStatusOp, vhAuthors[0], 1, id), Status: common.ClosedStatus}
		}
		b.Append(op)
	}
	err := b.Validate()
	want := allValid && firstIsCreate && creates == 1 && !dup
	rt.Assert((err == nil) == want, "bug-valid-iff-one-leading-create-and-valid-distinct-operations")
	if err == nil {
		rt.Cover("accepted")
	} else {
		rt.Cover("refused")
	}
	rt.Observe("k", K)
}
