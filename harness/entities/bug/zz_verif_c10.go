package bug

import (
	"fmt"

	"github.com/MichaelMure/git-bug/entities/common"
	"github.com/MichaelMure/git-bug/entities/identity"
	"github.com/MichaelMure/git-bug/entity"
	"github.com/MichaelMure/git-bug/entity/dag"
	"github.com/MichaelMure/git-bug/repository"
	"github.com/MichaelMure/git-bug/util/lamport"
	"github.com/MichaelMure/git-bug/util/timestamp"
	"github.com/MichaelMure/git-bug/zzverif/rt"
)

type vhAuthor struct{ id entity.Id }

func (a *vhAuthor) Id() entity.Id                                            { return a.id }
func (a *vhAuthor) Name() string                                             { return "n" }
func (a *vhAuthor) DisplayName() string                                      { return "n" }
func (a *vhAuthor) Email() string                                            { return "" }
func (a *vhAuthor) Login() string                                            { return "" }
func (a *vhAuthor) AvatarUrl() string                                        { return "" }
func (a *vhAuthor) Keys() []*identity.Key                                    { return nil }
func (a *vhAuthor) SigningKey(repository.RepoKeyring) (*identity.Key, error) { return nil, nil }
func (a *vhAuthor) ValidKeysAtTime(string, lamport.Time) []*identity.Key     { return nil }
func (a *vhAuthor) LastModification() timestamp.Timestamp                    { return 0 }
func (a *vhAuthor) LastModificationLamports() map[string]lamport.Time        { return nil }
func (a *vhAuthor) IsProtected() bool                                        { return false }
func (a *vhAuthor) Validate() error                                          { return nil }
func (a *vhAuthor) NeedCommit() bool                                         { return false }

// ids differ within their first characters (combined ids only keep 14 characters of the
// operation id)
func vhHex(n int) entity.Id { return entity.Id(fmt.Sprintf("%08x%056x", n, 0)) }

var vhAuthors = []*vhAuthor{{id: vhHex(0xa1)}, {id: vhHex(0xa2)}}

// every operation carries its own author object, as after decoding from git: the same
// person is the same id, not the same pointer
func vhBase(t dag.OperationType, a int, n int) dag.OpBase {
	return dag.VHNewOpBase(t, &vhAuthor{id: vhAuthors[a].id}, 1, vhHex(0x1000+n))
}

// ---- reference interpreter (doc/model.md, README operation semantics) ----

type refComment struct {
	target  entity.Id
	message string
	file    repository.Hash // the attached file, "" = none
}

type refState struct {
	title    string
	status   common.Status
	labels   []string // as a set, compared up to order then checked sorted
	comments []refComment
	actors   []entity.Id
	parts    []entity.Id
	timeline int
	edits    map[entity.Id]int // target -> number of entries in its edit history
}

var vhFiles = []repository.Hash{"1111111111111111111111111111111111111111", "2222222222222222222222222222222222222222", "3333333333333333333333333333333333333333"}

// vhPickFiles: no file, or the blob that belongs to operation number j.
func vhPickFiles(j int) ([]repository.Hash, repository.Hash) {
	if rt.Param("FILES", 1) == 0 || rt.Choose(2) == 0 {
		return nil, ""
	}
	f := vhFiles[j%len(vhFiles)]
	return []repository.Hash{f}, f
}

func (r *refState) addId(list *[]entity.Id, id entity.Id) {
	for _, x := range *list {
		if x == id {
			return
		}
	}
	*list = append(*list, id)
}

// VH_C10_sequence: every operation sequence create + up to K operations over all kinds
// (symbolic titles, labels, messages; edit targets existing / unknown / non-comment):
// the compiled state is the documented interpretation, compiling is repeatable.
func VH_C10_sequence() {
	k := rt.Param("K", 2)
	b := NewBug()
	ref := &refState{status: common.OpenStatus, edits: map[entity.Id]int{}}
	// create
	title0 := rt.NondetStringN(1)
	files0, file0 := vhPickFiles(0)
	create := &CreateOperation{OpBase: vhBase(CreateOp, 0, 0), Title: title0, Message: "m0", Files: files0}
	b.Append(create)
	ref.title = title0
	ref.comments = []refComment{{target: create.Id(), message: "m0", file: file0}}
	ref.addId(&ref.actors, vhAuthors[0].id)
	ref.addId(&ref.parts, vhAuthors[0].id)
	ref.timeline = 1
	ref.edits[create.Id()] = 1
	var nonCommentOps []entity.Id
	n := rt.Choose(k + 1)
	for j := 1; j <= n; j++ {
		a := rt.Choose(2)
		aid := vhAuthors[a].id
		kindOfOp := rt.Choose(7)
		if rt.Param("NOLABELS", 0) == 1 && kindOfOp == 4 {
			rt.Assume(false) // label changes have their own harness (H_C10_labels)
		}
		switch kindOfOp {
		case 0:
			msg := fmt.Sprintf("m%d", j)
			fs, f := vhPickFiles(j)
			op := &AddCommentOperation{OpBase: vhBase(AddCommentOp, a, j), Message: msg, Files: fs}
			b.Append(op)
			ref.comments = append(ref.comments, refComment{target: op.Id(), message: msg, file: f})
			ref.addId(&ref.actors, aid)
			ref.addId(&ref.parts, aid)
			ref.timeline++
			ref.edits[op.Id()] = 1
			rt.Cover("add-comment")
		case 1:
			// edit: an existing comment, an unknown id, or a non-comment operation
			var target entity.Id
			kind := rt.Choose(3)
			switch kind {
			case 0:
				target = ref.comments[rt.Choose(len(ref.comments))].target
			case 1:
				target = vhHex(0xdead)
			default:
				if len(nonCommentOps) == 0 {
					rt.Assume(false)
				}
				target = nonCommentOps[rt.Choose(len(nonCommentOps))]
				rt.Cover("edit-non-comment-target")
			}
			msg := fmt.Sprintf("e%d", j)
			if kind == 0 && rt.Choose(2) == 1 {
				// an edit that keeps the text (changes the attachments only)
				for _, rc := range ref.comments {
					if rc.target == target {
						msg = rc.message
					}
				}
				rt.Cover("edit-keeping-the-text")
			}
			fs, f := vhPickFiles(j)
			op := &EditCommentOperation{OpBase: vhBase(EditCommentOp, a, j), Target: target, Message: msg, Files: fs}
			b.Append(op)
			if kind == 0 {
				for c := range ref.comments {
					if ref.comments[c].target == target {
						ref.comments[c].message = msg
						ref.comments[c].file = f
					}
				}
				ref.addId(&ref.actors, aid)
				ref.edits[target]++
				rt.Cover("edit-comment")
			} else {
				rt.Cover("edit-noop")
			}
		case 2:
			t := rt.NondetStringN(1)
			op := &SetTitleOperation{OpBase: vhBase(SetTitleOp, a, j), Title: t, Was: ref.title}
			b.Append(op)
			nonCommentOps = append(nonCommentOps, op.Id())
			ref.title = t
			ref.addId(&ref.actors, aid)
			ref.timeline++
			rt.Cover("set-title")
		case 3:
			st := common.Status(1 + rt.Choose(2))
			op := &SetStatusOperation{OpBase: vhBase(SetStatusOp, a, j), Status: st}
			b.Append(op)
			nonCommentOps = append(nonCommentOps, op.Id())
			ref.status = st
			ref.addId(&ref.actors, aid)
			ref.timeline++
			rt.Cover("set-status")
		case 4:
			var added, removed []Label
			na, nr := rt.Choose(3), rt.Choose(3)
			for x := 0; x < na; x++ {
				added = append(added, Label(rt.NondetStringN(1)))
			}
			for x := 0; x < nr; x++ {
				removed = append(removed, Label(rt.NondetStringN(1)))
			}
			op := &LabelChangeOperation{OpBase: vhBase(LabelChangeOp, a, j), Added: added, Removed: removed}
			b.Append(op)
			nonCommentOps = append(nonCommentOps, op.Id())
			// additions then removals, as a set
			for _, l := range added {
				has := false
				for _, e := range ref.labels {
					if e == string(l) {
						has = true
					}
				}
				if !has {
					ref.labels = append(ref.labels, string(l))
				}
			}
			for _, l := range removed {
				var keep []string
				for _, e := range ref.labels {
					if e != string(l) {
						keep = append(keep, e)
					}
				}
				ref.labels = keep
			}
			ref.addId(&ref.actors, aid)
			ref.timeline++
			rt.Cover("label-change")
		case 5:
			op := NewSetMetadataOp(vhAuthors[a], 1, create.Id(), map[string]string{"k": "v"})
			dag.VHSetId(op, vhHex(0x1000+j))
			b.Append(op)
			rt.Cover("set-metadata")
		default:
			op := dag.NewNoOpOp[*Snapshot](NoOpOp, vhAuthors[a], 1)
			dag.VHSetId(op, vhHex(0x1000+j))
			b.Append(op)
			rt.Cover("noop")
		}
	}
	var snap *Snapshot
	panicked, _ := rt.Try(func() { snap = b.Compile() })
	rt.Assert(!panicked, "compile-no-panic")
	if panicked {
		return
	}
	rt.Assert(snap.Title == ref.title, "title-is-last-title")
	rt.Assert(snap.Status == ref.status, "status-is-last-status")
	rt.Assert(len(snap.Labels) == len(ref.labels), "label-set-size")
	for i := 1; i < len(snap.Labels); i++ {
		rt.Assert(string(snap.Labels[i-1]) < string(snap.Labels[i]), "labels-sorted-duplicate-free")
	}
	for _, l := range ref.labels {
		found := false
		for _, s := range snap.Labels {
			found = rt.Or(found, string(s) == l)
		}
		rt.Assert(found, "expected-label-present")
	}
	rt.Assert(len(snap.Comments) == len(ref.comments), "one-comment-per-create-or-add")
	for i := range ref.comments {
		if i < len(snap.Comments) {
			rt.Assert(snap.Comments[i].TargetId() == ref.comments[i].target, "comment-order")
			rt.Assert(snap.Comments[i].Message == ref.comments[i].message, "comment-text-is-latest-edit")
			wantFile := ref.comments[i].file
			if wantFile == "" {
				rt.Assert(len(snap.Comments[i].Files) == 0, "comment-files-are-those-of-the-latest-edit")
			} else {
				rt.Assert(len(snap.Comments[i].Files) == 1 && snap.Comments[i].Files[0] == wantFile, "comment-files-are-those-of-the-latest-edit")
			}
			rt.Assert(snap.Comments[i].CombinedId() == entity.CombineIds(snap.Id(), ref.comments[i].target), "comment-combined-id")
		}
	}
	rt.Assert(len(snap.Actors) == len(ref.actors), "actors-each-once")
	rt.Assert(len(snap.Participants) == len(ref.parts), "participants-each-once")
	for i := range ref.actors {
		if i < len(snap.Actors) {
			rt.Assert(snap.Actors[i].Id() == ref.actors[i], "actors-in-order")
		}
	}
	rt.Assert(len(snap.Timeline) == ref.timeline, "one-timeline-entry-per-state-change")
	for _, it := range snap.Timeline {
		switch t := it.(type) {
		case *CreateTimelineItem:
			rt.Assert(len(t.History) == ref.edits[create.Id()], "create-edit-history")
			rt.Assert(t.Message == ref.comments[0].message, "timeline-entry-shows-the-latest-text")
			if ref.comments[0].file == "" {
				rt.Assert(len(t.Files) == 0, "timeline-entry-shows-the-latest-files")
			} else {
				rt.Assert(len(t.Files) == 1 && t.Files[0] == ref.comments[0].file, "timeline-entry-shows-the-latest-files")
			}
		case *AddCommentTimelineItem:
			for _, rc := range ref.comments {
				if entity.CombineIds(snap.Id(), rc.target) == t.CombinedId() {
					rt.Assert(len(t.History) == ref.edits[rc.target], "comment-edit-history")
					rt.Assert(t.Message == rc.message, "timeline-entry-shows-the-latest-text")
					if rc.file == "" {
						rt.Assert(len(t.Files) == 0, "timeline-entry-shows-the-latest-files")
					} else {
						rt.Assert(len(t.Files) == 1 && t.Files[0] == rc.file, "timeline-entry-shows-the-latest-files")
					}
				}
			}
		}
	}
	rt.Assert(len(snap.Operations) == n+1, "all-operations-recorded")
	// repeatable
	snap2 := b.Compile()
	rt.Assert(snap2.Title == snap.Title && snap2.Status == snap.Status && len(snap2.Labels) == len(snap.Labels) && len(snap2.Comments) == len(snap.Comments) && len(snap2.Timeline) == len(snap.Timeline), "compile-repeatable")
	for i := range snap.Labels {
		if i < len(snap2.Labels) {
			rt.Assert(snap.Labels[i] == snap2.Labels[i], "compile-repeatable-labels")
		}
	}
	rt.Observe("n", n)
	rt.Observe("title", snap.Title)
}

// VH_C10_labels: one label change on an arbitrary valid label set.
func VH_C10_labels() {
	snap := &Snapshot{id: vhHex(0x1000)}
	np := rt.Choose(4)
	var pre []string
	for i := 0; i < np; i++ {
		l := rt.NondetStringN(1)
		if i > 0 {
			rt.Assume(pre[i-1] < l) // sorted, duplicate free
		}
		pre = append(pre, l)
		snap.Labels = append(snap.Labels, Label(l))
	}
	var added, removed []Label
	na, nr := rt.Choose(3), rt.Choose(3)
	for x := 0; x < na; x++ {
		added = append(added, Label(rt.NondetStringN(1)))
	}
	for x := 0; x < nr; x++ {
		removed = append(removed, Label(rt.NondetStringN(1)))
	}
	op := &LabelChangeOperation{OpBase: vhBase(LabelChangeOp, 0, 1), Added: added, Removed: removed}
	panicked, _ := rt.Try(func() { op.Apply(snap) })
	rt.Assert(!panicked, "label-apply-no-panic")
	if panicked {
		return
	}
	for i := 1; i < len(snap.Labels); i++ {
		rt.Assert(string(snap.Labels[i-1]) < string(snap.Labels[i]), "labels-sorted-duplicate-free")
	}
	// membership of every mentioned label
	var universe []string
	universe = append(universe, pre...)
	for _, l := range added {
		universe = append(universe, string(l))
	}
	for _, l := range removed {
		universe = append(universe, string(l))
	}
	in := func(set []string, x string) bool {
		r := false
		for _, e := range set {
			r = rt.Or(r, e == x)
		}
		return r
	}
	inL := func(set []Label, x string) bool {
		r := false
		for _, e := range set {
			r = rt.Or(r, string(e) == x)
		}
		return r
	}
	for _, x := range universe {
		want := rt.And(rt.Or(in(pre, x), inL(added, x)), rt.Not(inL(removed, x)))
		rt.Assert(inL(snap.Labels, x) == want, "label-membership")
	}
	// nothing else appears
	for _, s := range snap.Labels {
		rt.Assert(in(universe, string(s)), "no-foreign-label")
	}
	rt.Assert(len(snap.Timeline) == 1, "label-change-timeline-entry")
	if nr > 0 && np > 1 {
		rt.Cover("removal-from-several")
	}
	rt.Cover("checked")
}

// VH_C10_metadata: metadata attached later never overrides an existing key.
func VH_C10_metadata() {
	b := NewBug()
	create := &CreateOperation{OpBase: vhBase(CreateOp, 0, 0), Title: "t", Message: "m"}
	k0, v0 := rt.NondetStringN(1), rt.NondetStringN(1)
	hasOrig := rt.Choose(2) == 1
	if hasOrig {
		create.Metadata = map[string]string{k0: v0}
	}
	b.Append(create)
	k1, v1 := rt.NondetStringN(1), rt.NondetStringN(1)
	k2, v2 := rt.NondetStringN(1), rt.NondetStringN(1)
	op1 := NewSetMetadataOp(vhAuthors[0], 1, create.Id(), map[string]string{k1: v1})
	dag.VHSetId(op1, vhHex(0x2001))
	op2 := NewSetMetadataOp(vhAuthors[1], 1, create.Id(), map[string]string{k2: v2})
	dag.VHSetId(op2, vhHex(0x2002))
	b.Append(op1)
	b.Append(op2)
	snap := b.Compile()
	_ = snap
	probe := rt.NondetStringN(1)
	got, ok := create.GetMetadata(probe)
	// reference: original, then first extra, then second extra
	switch {
	case hasOrig && probe == k0:
		rt.Assert(ok && got == v0, "original-metadata-wins")
		rt.Cover("original-wins")
	case probe == k1:
		rt.Assert(ok && got == v1, "earlier-extra-metadata-wins")
	case probe == k2:
		rt.Assert(ok && got == v2, "later-extra-metadata-set")
	default:
		rt.Assert(!ok, "unknown-key-absent")
	}
	all := create.AllMetadata()
	g2, ok2 := all[probe]
	rt.Assert(ok2 == ok && (!ok || g2 == got), "all-metadata-agrees")
	rt.Assert(len(snap.Timeline) == 1, "metadata-adds-no-timeline-entry")
}

// VH_C07_optype: the operation type dispatch of remote JSON never crashes: an unknown
// type is an error.
func VH_C07_optype() {
	k := rt.NondetInt()
	rt.Assume(k >= 0 && k < 1<<31)
	raw := []byte(fmt.Sprintf("{\"type\":%d}", k))
	var err error
	var op dag.Operation
	panicked, pv := rt.Try(func() { op, err = operationUnmarshaler(raw, nil) })
	_ = pv
	rt.Assert(!panicked, "unknown-operation-type-no-panic")
	if k == 0 || k > int(SetMetadataOp) {
		rt.Cover("unknown-type")
		rt.Assert(err != nil && op == nil, "unknown-operation-type-is-an-error")
	} else {
		rt.Cover("known-type")
	}
}
