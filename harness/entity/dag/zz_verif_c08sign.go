package dag

import (
	"fmt"

	"github.com/MichaelMure/git-bug/entities/identity"
	"github.com/MichaelMure/git-bug/repository"
	"github.com/MichaelMure/git-bug/util/lamport"
	"github.com/MichaelMure/git-bug/zzverif/rt"
	"github.com/MichaelMure/git-bug/zzverif/vrepo"
)

// VH_C08_sign: the write side and the round trip, on a real identity.Identity: versions
// adding / removing / rotating keys at arbitrary logical times, private parts of an
// arbitrary subset of the keys in the keyring, a commit written by the real
// operationPack.Write at an arbitrary logical time T and read back by the real
// readOperationPack. M-PGP: a signature verifies iff its signer is in the keyring handed to
// openpgp.
//
//   - Write signs with the first key of the author's current key set whose private part
//     is available, and does not sign when there is none; a keyring failure is an error
//     and nothing is committed;
//   - the commit is accepted on read iff no key is in force at T, or it is signed by a key
//     in force at T (a key counts from the version that introduced it, at that version's
//     logical time, until the version that removed it).
//
// With READBACK=1 (C04) the harness also asserts that, in normal operation (T not earlier
// than the author's last version), git-bug can read back the commit it has just written.
func VH_C08_sign() {
	vhResetPacks()
	r := vrepo.New()
	keys := identity.VHNewKeys(3)
	nv := 1 + rt.Choose(rt.Param("V", 2))
	var sets [][]*identity.Key
	var times []uint64
	var hasTime []bool
	var eff []uint64
	var last uint64
	for k := 0; k < nv; k++ {
		t := last
		ht := rt.Choose(2) == 1
		if ht {
			t = rt.NondetUint64()
			rt.Assume(t >= last)
		}
		last = t
		var set []*identity.Key
		m := rt.Choose(8)
		for b := 0; b < 3; b++ {
			if m&(1<<b) != 0 {
				set = append(set, keys[b])
			}
		}
		sets = append(sets, set)
		times = append(times, t)
		hasTime = append(hasTime, ht)
		eff = append(eff, t)
	}
	author := identity.VHKeyedIdentity(1, editClockName(), sets, times, hasTime)
	// the keyring: private parts of a subset; optionally a failure on one key
	pm := rt.Choose(8)
	var private []*identity.Key
	for b := 0; b < 3; b++ {
		if pm&(1<<b) != 0 {
			private = append(private, keys[b])
		}
	}
	var fails *identity.Key
	if f := rt.Choose(4); f < 3 {
		fails = keys[f]
		rt.Cover("keyring-failure")
	}
	identity.VHSetKeyring(private, fails)

	T := rt.NondetUint64()
	rt.Assume(T > 0)
	opp := &operationPack{Author: author, Operations: []Operation{vhNewOp(0, author)}, EditTime: lamport.Time(T), CreateTime: 1}
	commits := len(r.Commits)
	h, err := opp.Write(vhDef, r)

	// reference: the signing key
	current := sets[nv-1]
	var want *identity.Key
	wantErr := false
	for _, k := range current {
		if k == fails {
			wantErr = true
			break
		}
		isPrivate := false
		for _, p := range private {
			if p == k {
				isPrivate = true
			}
		}
		if isPrivate {
			want = k
			break
		}
	}
	if wantErr {
		rt.Assert(err != nil, "keyring-failure-is-an-error")
		rt.Assert(len(r.Commits) == commits, "nothing-committed-after-keyring-failure")
		return
	}
	rt.Assert(err == nil, "write-succeeds")
	if err != nil {
		return
	}
	rec := r.Commits[h]
	if want == nil {
		rt.Assert(!rec.Signed, "not-signed-without-a-private-key")
		rt.Cover("unsigned")
	} else {
		rt.Assert(rec.Signed, "signed-when-a-private-key-is-available")
		rt.Assert(rec.Signer == want.PGPEntity(), "signed-with-the-first-available-key")
		rt.Cover("signed")
		if !rt.Symbolic() {
			rt.Assume(false) // real OpenPGP cannot verify a model signature: no native replay
		}
	}

	// reference: keys in force at T
	sel := -1
	for k := 0; k < nv; k++ {
		if eff[k] <= T {
			sel = k
		} else {
			break
		}
	}
	var inForce []*identity.Key
	if sel >= 0 {
		inForce = sets[sel]
	}
	signedByValid := false
	for _, k := range inForce {
		if want != nil && k == want {
			signedByValid = true
		}
	}
	commit, _ := r.ReadCommit(h)
	var back *operationPack
	var rerr error
	panicked, _ := rt.Try(func() { back, rerr = readOperationPack(vhDef, r, nil, commit) })
	rt.Assert(!panicked, "signature-gate-no-panic")
	if panicked {
		return
	}
	accept := len(inForce) == 0 || signedByValid
	if accept {
		rt.Assert(rerr == nil && back != nil, "commit-accepted-iff-no-key-in-force-or-signed-by-one")
		rt.Cover("accepted")
	} else {
		rt.Assert(rerr != nil, "commit-accepted-iff-no-key-in-force-or-signed-by-one")
		rt.Cover("refused")
		if want != nil {
			rt.Cover("signed-by-a-key-not-in-force")
		}
	}
	if rt.Param("READBACK", 0) == 1 && T >= eff[nv-1] {
		// normal operation: the author's identity is not newer than the commit
		if want == nil {
			// known finding F8 (no private key in the keyring: the commit is left unsigned)
			rt.Assert(rerr == nil, "own-commit-readable-without-private-key")
		} else {
			rt.Assert(rerr == nil, "own-commit-readable")
		}
	}
	rt.Observe("signed", rec.Signed)
}

// VH_C07_publickey: a remote serves an identity with a key (public part only, as stored in
// git) and a commit carrying a signature header. Whatever the signature is worth, reading
// the commit must end in acceptance or an error, not in a crash of the process.
func VH_C07_publickey() {
	vhResetPacks()
	r := vrepo.New()
	author := &vhAuthor{id: vhHexId(0xa9), keys: []*identity.Key{identity.VHPublicOnlyKey()}}
	rec := vhNewPack([]Operation{vhNewOp(0, author)}, author)
	blob := r.AddBlob([]byte(rec.token))
	empty := r.AddBlob([]byte{})
	tree := r.AddTree([]repository.TreeEntry{
		{ObjectType: repository.Blob, Hash: empty, Name: fmt.Sprintf(versionEntryPrefix+"%d", vhDef.FormatVersion)},
		{ObjectType: repository.Blob, Hash: blob, Name: opsEntryName},
		{ObjectType: repository.Blob, Hash: empty, Name: editClockEntryPrefix + "1"},
		{ObjectType: repository.Blob, Hash: empty, Name: createClockEntryPrefix + "1"},
	})
	h := r.AddCommit(tree)
	r.Commits[h].Signed = true
	r.Commits[h].SigOK = rt.Choose(2) == 1
	commit, _ := r.ReadCommit(h)
	var err error
	panicked, _ := rt.Try(func() { _, err = readOperationPack(vhDef, r, nil, commit) })
	rt.Cover("signed-commit-by-a-remote-key")
	rt.Assert(!panicked, "signed-commit-of-a-public-only-key-no-crash")
	_ = err
}
