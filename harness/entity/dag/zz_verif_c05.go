package dag

import (
	"github.com/MichaelMure/git-bug/zzverif/rt"
)

// VH_C05_rebuild: with the clock files gone (fresh clone, deleted .git/git-bug/clocks),
// the real ReadAllClocksNoCheck over the stored entities brings both clocks back to at
// least the maximum time stored in any reachable commit, so the next write sorts last.
func VH_C05_rebuild() {
	n := 1 + rt.Choose(rt.Param("N", 4))
	d := vhGenDag(n, false, 2)
	h1 := rt.Choose(n)
	rt.Assume(d.i1Valid(h1))
	d.repo.SetRef(vhLocalRef, d.hash[h1])
	two := rt.Choose(2) == 1
	h2 := 0
	if two {
		h2 = rt.Choose(n)
		rt.Assume(d.i1Valid(h2))
		d.repo.SetRef(vhOtherRef, d.hash[h2])
		rt.Cover("two-entities")
	}
	for i := 0; i < d.n; i++ {
		rt.Assume(rt.And(d.edit[i] < ^uint64(0)-8, d.create[i] < ^uint64(0)-8))
	}
	// no clock files, no clock objects
	d.repo.Restart()
	d.repo.FS.Files = map[string][]byte{}
	d.repo.ReverseRefs = rt.Choose(2) == 1
	err := ReadAllClocksNoCheck(vhDef, d.repo)
	rt.Assert(err == nil, "rebuild-succeeds-on-valid-entities")
	if err != nil {
		return
	}
	E := uint64(d.repo.ClockTime(editClockName()))
	C := uint64(d.repo.ClockTime(createClockName()))
	check := func(h int) {
		in := d.reach(h)
		for i := 0; i < d.n; i++ {
			if in[i] {
				rt.Assert(E >= d.edit[i], "rebuilt-edit-clock-dominates-stored")
				if d.hasCreate[i] {
					rt.Assert(C >= d.create[i], "rebuilt-create-clock-dominates-stored")
				}
			}
		}
	}
	check(h1)
	if two {
		check(h2)
	}
	// a restart keeps them
	d.repo.Restart()
	rt.Assert(uint64(d.repo.ClockTime(editClockName())) == E, "rebuilt-clock-persisted")
	// and the next commit on the entity sorts after everything stored
	e, rerr := read(vhDef, vhWrap, d.repo, nil, vhLocalRef)
	rt.Assert(rerr == nil, "entity-readable-after-rebuild")
	if rerr != nil {
		return
	}
	e.Append(vhNewOp(200, vhAuthors[0]))
	rt.Assert(e.Commit(d.repo) == nil, "commit-after-rebuild")
	rt.Assert(uint64(e.EditLamportTime()) > vhMaxEdit(d, h1), "next-edit-after-everything-stored")
	rt.Cover("rebuilt")
	rt.Observe("E", E)
}
