package dag

import (
	"fmt"

	"github.com/MichaelMure/git-bug/entity"
	"github.com/MichaelMure/git-bug/repository"
	"github.com/MichaelMure/git-bug/zzverif/rt"
	"github.com/MichaelMure/git-bug/zzverif/vrepo"
)

// VH_C14_remove: dag.Remove deletes the entity's local ref and its remote-tracking refs
// for every configured remote and nothing else; repeating it changes nothing.
func VH_C14_remove() {
	r := vrepo.New()
	h := r.AddCommit(r.AddTree(nil))
	id := vhHexId(0x1000)
	// an id sharing the first 63 characters with the removed one
	sibling := entity.Id(string(id)[:63] + "f")
	remoteNames := []string{"origin", "up", "x"}
	nr := rt.Choose(len(remoteNames) + 1)
	for k := 0; k < nr; k++ {
		r.Remotes[remoteNames[k]] = "url"
	}
	var mine, others []string
	add := func(name string, isMine bool) {
		if rt.Choose(2) == 1 {
			r.SetRef(name, h)
			if isMine {
				mine = append(mine, name)
			} else {
				others = append(others, name)
			}
		}
	}
	add(fmt.Sprintf("refs/foos/%s", id), true)
	for k := 0; k < nr; k++ {
		add(fmt.Sprintf("refs/remotes/%s/foos/%s", remoteNames[k], id), true)
	}
	// things that must survive
	add(fmt.Sprintf("refs/foos/%s", sibling), false)
	add(fmt.Sprintf("refs/remotes/origin/foos/%s", sibling), false)
	add(fmt.Sprintf("refs/remotes/unconfigured/foos/%s", id), false)
	add(fmt.Sprintf("refs/bars/%s", id), false)
	add("refs/heads/master", false)
	add("refs/tags/v1", false)
	add(fmt.Sprintf("refs/identities/%s", id), false)
	r.Log = nil
	var err error
	panicked, _ := rt.Try(func() { err = Remove(vhDef, r, id) })
	rt.Assert(!panicked, "remove-no-panic")
	rt.Assert(err == nil, "remove-succeeds")
	check := func(tag string) {
		for _, m := range mine {
			ok, _ := r.RefExist(m)
			rt.Assert(!ok, "entity-ref-removed"+tag)
		}
		for _, o := range others {
			ok, _ := r.RefExist(o)
			rt.Assert(ok, "other-ref-kept"+tag)
		}
	}
	check("")
	for _, l := range r.Log {
		rt.Assert(len(l) > 9 && l[:9] == "RemoveRef", "remove-only-removes-refs")
	}
	rt.Assert(len(r.Blobs)+len(r.Trees) >= 0, "objects-untouched")
	// repeat
	n := len(r.Refs)
	err2 := Remove(vhDef, r, id)
	rt.Assert(err2 == nil, "second-remove-harmless")
	rt.Assert(len(r.Refs) == n, "second-remove-changes-nothing")
	check("-after-repeat")
	if len(mine) > 1 {
		rt.Cover("several-refs-removed")
	}
	rt.Cover("checked")
	_ = repository.ErrNotFound
}
