package dag

import (
	"github.com/MichaelMure/git-bug/zzverif/rt"
)

// VH_C01_sameset: two heads of one history that reach the same set of operation-carrying
// commits (whatever merge commits each replica created on the way, in whatever parent
// order) read as exactly the same operation sequence.
func VH_C01_sameset() {
	vhSwapParents = true
	defer func() { vhSwapParents = false }()
	n := 2 + rt.Choose(rt.Param("N", 5)-1)
	d := vhGenDag(n, false, 2)
	h1 := rt.Choose(n)
	h2 := rt.Choose(n)
	rt.Assume(h1 < h2)
	rt.Assume(d.i1Valid(h1))
	rt.Assume(d.i1Valid(h2))
	r1, r2 := d.reach(h1), d.reach(h2)
	for i := 0; i < d.n; i++ {
		if len(d.pack[i].ops) > 0 && r1[i] != r2[i] {
			rt.Assume(false) // not the same operations: not a quiescent pair
		}
	}
	d.repo.SetRef("refs/foos/a", d.hash[h1])
	d.repo.SetRef("refs/foos/b", d.hash[h2])
	e1, err1 := read(vhDef, vhWrap, d.repo, nil, "refs/foos/a")
	// second replica: other map iteration order
	rt.MapOrder(1)
	e2, err2 := read(vhDef, vhWrap, d.repo, nil, "refs/foos/b")
	rt.MapOrder(0)
	rt.Assert(err1 == nil && err2 == nil, "both-replicas-readable")
	if err1 != nil || err2 != nil {
		return
	}
	o1, o2 := e1.Operations(), e2.Operations()
	rt.Assert(len(o1) == len(o2), "same-operation-count")
	for i := range o1 {
		if i < len(o2) {
			rt.Assert(o1[i] == o2[i], "same-operations-same-order")
		}
	}
	rt.Assert(e1.Id() == e2.Id(), "same-entity-id")
	merges := 0
	for i := 0; i < d.n; i++ {
		if (r1[i] || r2[i]) && len(d.parents[i]) == 2 {
			merges++
		}
	}
	if merges >= 2 {
		rt.Cover("different-merge-commits")
	}
	if merges >= 1 {
		rt.Cover("merged-history")
	}
	rt.Observe("n", len(o1))
}

// VH_C01_crossmerge: two replicas holding diverged heads of one bug each merge the
// other's head with the real merge; afterwards both read the same operation sequence,
// and one more exchange changes nothing.
func VH_C01_crossmerge() {
	n := 2 + rt.Choose(rt.Param("N", 4)-1)
	d := vhGenDag(n, false, 2)
	x := rt.Choose(n)
	y := rt.Choose(n)
	rt.Assume(x < y)
	rt.Assume(d.i1Valid(x))
	rt.Assume(d.i1Valid(y))
	rt.Assume(!d.reach(x)[y] && !d.reach(y)[x]) // diverged
	for i := 0; i < d.n; i++ {
		rt.Assume(rt.And(d.edit[i] < ^uint64(0)-16, d.create[i] < ^uint64(0)-16))
	}
	// both replicas live in one object store (objects are content addressed and shared);
	// replica A: local x, sees y; replica B: local y, sees x. Refs are per replica.
	const refA = "refs/foos/0000000000000000000000000000000000000000000000000000000000001000"
	const remA = "refs/remotes/b/foos/0000000000000000000000000000000000000000000000000000000000001000"
	d.repo.SetRef(refA, d.hash[x])
	d.repo.SetRef(remA, d.hash[y])
	vhSetClocks(d, x)
	resA := merge(vhDef, vhWrap, d.repo, nil, remA, vhAuthors[0])
	rt.Assert(resA.Err == nil, "replica-a-merges")
	headA, _ := d.repo.ResolveRef(refA)
	eA, errA := read(vhDef, vhWrap, d.repo, nil, refA)

	// replica B (fresh refs and clocks over the same objects)
	d.repo.SetRef(refA, d.hash[y])
	d.repo.SetRef(remA, d.hash[x])
	d.repo.Restart()
	d.repo.FS.Files = map[string][]byte{}
	vhSetClocks(d, y)
	resB := merge(vhDef, vhWrap, d.repo, nil, remA, vhAuthors[1])
	rt.Assert(resB.Err == nil, "replica-b-merges")
	headB, _ := d.repo.ResolveRef(refA)
	eB, errB := read(vhDef, vhWrap, d.repo, nil, refA)
	rt.Assert(errA == nil && errB == nil, "both-merged-replicas-readable")
	if errA != nil || errB != nil {
		return
	}
	rt.Assert(headA != headB, "each-replica-made-its-own-merge-commit")
	oA, oB := eA.Operations(), eB.Operations()
	rt.Assert(len(oA) == len(oB), "converged-count")
	for i := range oA {
		if i < len(oB) {
			rt.Assert(oA[i] == oB[i], "converged-order")
		}
	}
	// exchange again: B now sees A's merge commit; the union of operations is unchanged
	d.repo.SetRef(remA, headA)
	resB2 := merge(vhDef, vhWrap, d.repo, nil, remA, vhAuthors[1])
	rt.Assert(resB2.Err == nil, "second-exchange-merges")
	eB2, errB2 := read(vhDef, vhWrap, d.repo, nil, refA)
	rt.Assert(errB2 == nil, "readable-after-second-exchange")
	if errB2 == nil {
		oB2 := eB2.Operations()
		rt.Assert(len(oB2) == len(oA), "still-converged-count")
		for i := range oA {
			if i < len(oB2) {
				rt.Assert(oA[i] == oB2[i], "still-converged-order")
			}
		}
	}
	rt.Cover("cross-merged")
}
