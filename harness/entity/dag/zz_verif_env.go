package dag

// Shared environment of the DAG harnesses: model repository, operation/author doubles
// and the M-PACK codec cut (unmarshallPack / operationPack.MarshalJSON / DeriveId).

import (
	"fmt"
	"time"

	"github.com/MichaelMure/git-bug/entities/identity"
	"github.com/MichaelMure/git-bug/entity"
	"github.com/MichaelMure/git-bug/repository"
	"github.com/MichaelMure/git-bug/util/lamport"
	"github.com/MichaelMure/git-bug/util/timestamp"
	"github.com/MichaelMure/git-bug/zzverif/rt"
	"github.com/MichaelMure/git-bug/zzverif/vreg"
	"github.com/MichaelMure/git-bug/zzverif/vrepo"
)

// ---- author double (M-ID) ----

type vhAuthor struct {
	id   entity.Id
	keys []*identity.Key
}

func (a *vhAuthor) Id() entity.Id                                      { return a.id }
func (a *vhAuthor) Name() string                                       { return "n" }
func (a *vhAuthor) DisplayName() string                                { return "n" }
func (a *vhAuthor) Email() string                                      { return "" }
func (a *vhAuthor) Login() string                                      { return "" }
func (a *vhAuthor) AvatarUrl() string                                  { return "" }
func (a *vhAuthor) Keys() []*identity.Key                              { return a.keys }
func (a *vhAuthor) SigningKey(repository.RepoKeyring) (*identity.Key, error) { return nil, nil }
func (a *vhAuthor) ValidKeysAtTime(string, lamport.Time) []*identity.Key { return a.keys }
func (a *vhAuthor) LastModification() timestamp.Timestamp              { return 0 }
func (a *vhAuthor) LastModificationLamports() map[string]lamport.Time  { return nil }
func (a *vhAuthor) IsProtected() bool                                  { return false }
func (a *vhAuthor) Validate() error                                    { return nil }
func (a *vhAuthor) NeedCommit() bool                                   { return false }

func vhHexId(n int) entity.Id { return entity.Id(fmt.Sprintf("%064x", n)) }

var vhAuthors = []*vhAuthor{{id: vhHexId(0xa1)}, {id: vhHexId(0xa2)}}

// ---- operation double ----

type vhOp struct {
	OpBase
	N   int
	Bad bool // an operation whose own validation fails (hostile content)
}

func (o *vhOp) Id() entity.Id { return o.id }
func (o *vhOp) Validate() error {
	if o.Bad {
		return fmt.Errorf("vh: invalid operation")
	}
	return nil
}
func (o *vhOp) Time() time.Time    { return time.Unix(1, 0) }

func vhNewOp(n int, author identity.Interface) *vhOp {
	return &vhOp{OpBase: OpBase{id: vhHexId(0x1000 + n), author: author, OperationType: 1, UnixTime: 1}, N: n}
}

type vhEntity struct{ *Entity }

func vhWrap(e *Entity) *vhEntity { return &vhEntity{e} }

var vhDef = Definition{Typename: "foo", Namespace: "foos", FormatVersion: 1}

// ---- M-PACK ----

type vhPackRec struct {
	token  string
	id     string
	ops    []Operation
	author identity.Interface
	bad    bool // decoding fails (corrupt blob)
}

var (
	vhPacks   map[string]*vhPackRec        // token -> record
	vhByOpp   map[*operationPack]*vhPackRec // written packs
	vhNextTok int
)

func vhResetPacks() {
	vreg.Mu.Lock()
	defer func() { vreg.Mu.Unlock(); vreg.Reset() }()
	vhNextOpId = 0
	vhPacks = map[string]*vhPackRec{}
	vhByOpp = map[*operationPack]*vhPackRec{}
	vhNextTok = 0
}

// vhNewPack registers an opaque blob for (ops, author) with a fresh symbolic id that is
// distinct from every id registered so far (SHA-256 collision freeness).
func vhNewPack(ops []Operation, author identity.Interface) *vhPackRec {
	vreg.Mu.Lock()
	defer vreg.Mu.Unlock()
	vhNextTok++
	tok := fmt.Sprintf("\"vhblob:%d\"", vhNextTok)
	id := rt.NondetStringN(2)
	for _, p := range vhPacks {
		rt.Assume(p.id != id)
	}
	rec := &vhPackRec{token: tok, id: id, ops: ops, author: author}
	vhPacks[tok] = rec
	vreg.BlobIds[tok] = id
	return rec
}

// unmarshallPack (M-PACK read side): what the registered blob decodes to.
func unmarshallPack(def Definition, resolvers entity.Resolvers, data []byte) ([]Operation, identity.Interface, error) {
	vreg.Mu.Lock()
	rec, ok := vhPacks[string(data)]
	vreg.Mu.Unlock()
	if !ok || rec.bad {
		return nil, nil, fmt.Errorf("vh: undecodable pack")
	}
	// decoding yields fresh operation objects on every read (as JSON decoding does) for
	// operation types that can be cloned; the harness doubles are immutable and shared
	// the author is resolved by id through the resolvers when there are some (the cache
	// hands in its identity cache), as the real decoder does; decoded operations point to
	// the resolved author
	author := rec.author
	if resolvers != nil && rec.author != nil {
		resolved, err := entity.Resolve[identity.Interface](resolvers, rec.author.Id())
		if err != nil {
			return nil, nil, err
		}
		author = resolved
	}
	ops := make([]Operation, len(rec.ops))
	for i, op := range rec.ops {
		if cl, ok := op.(interface{ VHClone() Operation }); ok {
			ops[i] = cl.VHClone()
			if author != rec.author {
				ops[i].setAuthor(author)
			}
		} else {
			ops[i] = op
		}
	}
	return ops, author, nil
}

// MarshalJSON (M-PACK write side): the serialisation of a pack is an opaque blob that
// remembers the pack; repeated serialisation of the same pack gives the same bytes.
func (opp *operationPack) MarshalJSON() ([]byte, error) {
	vreg.Mu.Lock()
	rec, ok := vhByOpp[opp]
	vreg.Mu.Unlock()
	if !ok {
		rec = vhNewPack(opp.Operations, opp.Author)
		vreg.Mu.Lock()
		vhByOpp[opp] = rec
		vreg.Mu.Unlock()
	}
	return []byte(rec.token), nil
}


// ---- symbolic commit table ----

type vhDag struct {
	repo    *vrepo.Repo
	n       int
	hash    []repository.Hash
	parents [][]int
	edit    []uint64
	create  []uint64
	hasCreate []bool
	pack    []*vhPackRec
	version []uint64
}

func editClockName() string   { return fmt.Sprintf(editClockPattern, vhDef.Namespace) }
func createClockName() string { return fmt.Sprintf(creationClockPattern, vhDef.Namespace) }

// vhAddCommit stores one commit with the on-disk layout operationPack.Write produces.
func (d *vhDag) vhAddCommit(parents []int, edit, create uint64, hasCreate bool, ops []Operation, author identity.Interface) int {
	rec := vhNewPack(ops, author)
	blob := d.repo.AddBlob([]byte(rec.token))
	empty := d.repo.AddBlob([]byte{})
	entries := []repository.TreeEntry{
		{ObjectType: repository.Blob, Hash: empty, Name: fmt.Sprintf(versionEntryPrefix+"%d", vhDef.FormatVersion)},
		{ObjectType: repository.Blob, Hash: blob, Name: opsEntryName},
		{ObjectType: repository.Blob, Hash: empty, Name: fmt.Sprintf(editClockEntryPrefix+"%d", edit)},
	}
	if hasCreate {
		entries = append(entries, repository.TreeEntry{ObjectType: repository.Blob, Hash: empty, Name: fmt.Sprintf(createClockEntryPrefix+"%d", create)})
	}
	tree := d.repo.AddTree(entries)
	var ph []repository.Hash
	for _, p := range parents {
		ph = append(ph, d.hash[p])
	}
	h := d.repo.AddCommit(tree, ph...)
	d.hash = append(d.hash, h)
	d.parents = append(d.parents, parents)
	d.edit = append(d.edit, edit)
	d.create = append(d.create, create)
	d.hasCreate = append(d.hasCreate, hasCreate)
	d.pack = append(d.pack, rec)
	d.n++
	return d.n - 1
}

// reach returns the set of commits reachable from head (including it).
func (d *vhDag) reach(head int) []bool {
	seen := make([]bool, d.n)
	var walk func(i int)
	walk = func(i int) {
		if seen[i] {
			return
		}
		seen[i] = true
		for _, p := range d.parents[i] {
			walk(p)
		}
	}
	walk(head)
	return seen
}

// vhChooseParents draws 0..maxP distinct parents among commits 0..i-1.
func vhChooseParents(i, minP, maxP int) []int {
	if i == 0 {
		return nil
	}
	if maxP > i {
		maxP = i
	}
	if minP > maxP {
		minP = maxP
	}
	k := minP + rt.Choose(maxP-minP+1)
	var ps []int
	last := -1
	for j := 0; j < k; j++ {
		// increasing indices => distinct
		lo := last + 1
		room := i - lo - (k - j - 1)
		if room <= 0 {
			rt.Assume(false)
		}
		p := lo + rt.Choose(room)
		ps = append(ps, p)
		last = p
	}
	return ps
}

// i1Valid states invariant I1 of DESIGN.md §5 for the DAG under head, as one condition:
// exactly what Commit and merge produce (merge parents are diverged heads).
func (d *vhDag) i1Valid(head int) bool { return d.wellFormed(head, true) }

// noListedDefect is the weaker acceptance condition of C03: none of the defects the
// property lists (clock/ancestry contradiction, far jump, several roots, missing
// creation time, merge commit with operations).
func (d *vhDag) noListedDefect(head int) bool { return d.wellFormed(head, false) }

func (d *vhDag) wellFormed(head int, produced bool) bool {
	in := d.reach(head)
	ok := true
	roots := 0
	for i := 0; i < d.n; i++ {
		if !in[i] {
			continue
		}
		np := len(d.parents[i])
		if np == 0 {
			roots++
			ok = rt.And(ok, rt.And(d.hasCreate[i], d.create[i] > 0))
		}
		if np > 2 && produced {
			return false
		}
		if np >= 2 && len(d.pack[i].ops) > 0 {
			return false
		}
		if np == 2 && produced {
			// merge commits join diverged heads: neither parent is an ancestor of the other
			a, b := d.parents[i][0], d.parents[i][1]
			if d.reach(a)[b] || d.reach(b)[a] {
				return false
			}
		}
		ok = rt.And(ok, d.edit[i] != 0)
		for _, p := range d.parents[i] {
			ok = rt.And(ok, d.edit[p] < d.edit[i])
			if np < 2 {
				ok = rt.And(ok, d.edit[i]-d.edit[p] <= 1_000_000)
			}
		}
	}
	if roots != 1 {
		return false
	}
	return ok
}

// ---- exported entry points for harnesses of other packages (cache, api) ----

// VHResetPacks clears the M-PACK registry.
func VHResetPacks() { vhResetPacks() }

// VHStoreCommit stores one commit holding the given operations in the on-disk layout of
// operationPack.Write (format version fv) on the model repository and returns its hash.
func VHStoreCommit(r *vrepo.Repo, fv uint, parents []repository.Hash, edit, create uint64, ops []Operation, author identity.Interface) repository.Hash {
	rec := vhNewPack(ops, author)
	blob := r.AddBlob([]byte(rec.token))
	empty := r.AddBlob([]byte{})
	entries := []repository.TreeEntry{
		{ObjectType: repository.Blob, Hash: empty, Name: fmt.Sprintf(versionEntryPrefix+"%d", fv)},
		{ObjectType: repository.Blob, Hash: blob, Name: opsEntryName},
		{ObjectType: repository.Blob, Hash: empty, Name: fmt.Sprintf(editClockEntryPrefix+"%d", edit)},
	}
	if len(parents) == 0 {
		entries = append(entries, repository.TreeEntry{ObjectType: repository.Blob, Hash: empty, Name: fmt.Sprintf(createClockEntryPrefix+"%d", create)})
	}
	return r.AddCommit(r.AddTree(entries), parents...)
}

// IdOperation (M-PACK): the id of a new operation is the hash of its JSON form, which is
// cut; it is an injective function of the operation, realised as a counter.
var vhNextOpId int

func IdOperation(op Operation, base *OpBase) entity.Id {
	if base.id == "" {
		panic("op's id not set")
	}
	if base.id == entity.UnsetId {
		vreg.Mu.Lock()
		vhNextOpId++
		n := vhNextOpId
		vreg.Mu.Unlock()
		base.id = entity.Id(fmt.Sprintf("%08x%056x", 0xd0000000+n, 0))
	}
	return base.id
}
