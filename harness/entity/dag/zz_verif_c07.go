package dag

import (
	"fmt"

	"github.com/MichaelMure/git-bug/entity"
	"github.com/MichaelMure/git-bug/repository"
	"github.com/MichaelMure/git-bug/zzverif/rt"
	"github.com/MichaelMure/git-bug/zzverif/vrepo"
)

// VH_C07_pack: readOperationPack on an arbitrary tree (entries drawn from the on-disk
// vocabulary, duplicated, omitted, with non-numeric or symbolic numbers): never a panic;
// success implies the format version entry is present and right and the clocks are
// those of the entries.
func VH_C07_pack() {
	vhResetPacks()
	repo := vrepo.New()
	empty := repo.AddBlob([]byte{})
	rec := vhNewPack([]Operation{vhNewOp(0, vhAuthors[0])}, vhAuthors[0])
	if rt.Choose(2) == 1 {
		rec.bad = true
	}
	blob := repo.AddBlob([]byte(rec.token))
	ne := rt.Choose(rt.Param("E", 4) + 1)
	var entries []repository.TreeEntry
	hasVersion, hasOps := false, false
	var firstVersion uint64
	var edit, create uint64
	var editSet, createSet bool
	var nVersion, nOps, nEdit, nCreate, nExtra, nJunk int
	for k := 0; k < ne; k++ {
		switch rt.Choose(8) {
		case 0:
			v := rt.NondetUint64()
			nVersion++
			if !hasVersion {
				hasVersion = true
				firstVersion = v
			}
			entries = append(entries, repository.TreeEntry{ObjectType: repository.Blob, Hash: empty, Name: fmt.Sprintf(versionEntryPrefix+"%d", v)})
		case 1:
			hasOps = true
			nOps++
			entries = append(entries, repository.TreeEntry{ObjectType: repository.Blob, Hash: blob, Name: opsEntryName})
		case 2:
			edit = rt.NondetUint64()
			editSet = true
			nEdit++
			entries = append(entries, repository.TreeEntry{ObjectType: repository.Blob, Hash: empty, Name: fmt.Sprintf(editClockEntryPrefix+"%d", edit)})
		case 3:
			create = rt.NondetUint64()
			createSet = true
			nCreate++
			entries = append(entries, repository.TreeEntry{ObjectType: repository.Blob, Hash: empty, Name: fmt.Sprintf(createClockEntryPrefix+"%d", create)})
		case 4:
			nExtra++
			entries = append(entries, repository.TreeEntry{ObjectType: repository.Tree, Hash: empty, Name: extraEntryName})
		case 5:
			nJunk++
			entries = append(entries, repository.TreeEntry{ObjectType: repository.Blob, Hash: empty, Name: "junk"})
		case 6:
			// non-numeric / overlong numerals
			names := []string{versionEntryPrefix + "x", versionEntryPrefix, editClockEntryPrefix + "-1", createClockEntryPrefix + "99999999999999999999999", editClockEntryPrefix + "1e3"}
			entries = append(entries, repository.TreeEntry{ObjectType: repository.Blob, Hash: empty, Name: names[rt.Choose(len(names))]})
			rt.Cover("bad-numeral")
			// expectations below do not apply
			hasVersion = hasVersion || false
			var opp *operationPack
			var err error
			tree := repo.AddTree(entries)
			commit := repository.Commit{Hash: repo.AddCommit(tree), TreeHash: tree}
			panicked, _ := rt.Try(func() { opp, err = readOperationPack(vhDef, repo, nil, commit) })
			rt.Assert(!panicked, "pack-read-no-panic")
			_ = opp
			_ = err
			return
		case 7:
			entries = append(entries, repository.TreeEntry{ObjectType: repository.Blob, Hash: repository.Hash("0000000000000000000000000000000000000bad"), Name: opsEntryName})
			hasOps = true
			nOps++
			rt.Cover("dangling-ops")
		}
	}
	tree := repo.AddTree(entries)
	commit := repository.Commit{Hash: repo.AddCommit(tree), TreeHash: tree}
	var opp *operationPack
	var err error
	panicked, _ := rt.Try(func() { opp, err = readOperationPack(vhDef, repo, nil, commit) })
	rt.Assert(!panicked, "pack-read-no-panic")
	if panicked {
		return
	}
	if err != nil {
		rt.Cover("pack-refused")
		return
	}
	rt.Cover("pack-accepted")
	rt.Assert(hasVersion && firstVersion == uint64(vhDef.FormatVersion), "accepted-pack-has-right-version")
	rt.Assert(hasOps, "accepted-pack-has-ops-entry")
	// "missing, duplicated or extra tree entries" are hostile: an accepted tree holds each
	// known entry at most once and nothing unknown (a missing edit clock is refused by the
	// caller's Validate, C03)
	rt.Assert(nVersion == 1 && nOps == 1 && nEdit <= 1 && nCreate <= 1 && nExtra <= 1, "accepted-pack-has-no-duplicated-entry")
	rt.Assert(nJunk == 0, "accepted-pack-has-no-unknown-entry")
	if opp != nil {
		if editSet && nEdit == 1 {
			rt.Assert(uint64(opp.EditTime) == edit, "accepted-pack-carries-the-clocks-of-its-entries")
		}
		if createSet && nCreate == 1 {
			rt.Assert(uint64(opp.CreateTime) == create, "accepted-pack-carries-the-clocks-of-its-entries")
		}
	}
	rt.Assert(opp != nil && opp.Author != nil, "accepted-pack-has-author")
}

// VH_C07_merge: the real merge against an arbitrary remote history (foreign root,
// several roots, broken clocks, undecodable pack, merge commits with operations, wrong
// ref name) in every local situation: no panic; an invalid report leaves refs and
// objects untouched; the local entity stays readable with all its operations.
func VH_C07_merge() {
	n := 1 + rt.Choose(rt.Param("N", 4))
	// one mutation from the catalogue at one position of an otherwise produced history;
	// clock values are arbitrary everywhere
	mut := rt.Choose(11)
	vhMut.kind, vhMut.pos = 0, 0
	if mut >= 1 && mut <= 4 {
		vhMut.kind, vhMut.pos = mut, rt.Choose(n)
	}
	if mut == 7 {
		vhMut.kind = 5
	}
	if mut >= 8 {
		// operation-level: 8 invalid operation, 9 foreign author, 10 repeated operation id
		vhMut.kind, vhMut.pos = mut-2, rt.Choose(n)
	}
	opPos := vhMut.pos
	defer func() { vhMut.kind = 0 }()
	d := vhGenDag(n, false, 2)
	vhMut.kind = 0
	R := rt.Choose(n)
	L := rt.Choose(n+1) - 1
	if mut == 7 {
		L = -1 // an empty entity cannot be a readable local one
		rt.Cover("empty-entity")
	}
	for i := 0; i < d.n; i++ {
		rt.Assume(rt.And(d.edit[i] < ^uint64(0)-8, d.create[i] < ^uint64(0)-8))
	}
	switch mut {
	case 1:
		rt.Cover("extra-root")
	case 2:
		rt.Cover("root-without-creation-clock")
	case 3:
		rt.Cover("merge-with-operation")
	case 4:
		rt.Cover("undecodable-remote-pack")
	case 8:
		rt.Cover("invalid-operation")
	case 9:
		rt.Cover("operation-by-another-author")
	case 10:
		rt.Cover("repeated-operation-id")
	}
	remoteRef := vhRemoteRef
	localRef := vhLocalRef
	if mut == 5 {
		// the ref is named after another id than the entity it points to
		remoteRef = "refs/remotes/origin/foos/00000000000000000000000000000000000000000000000000000000000fffff"
		localRef = vhOtherRef
		rt.Cover("ref-name-mismatch")
	} else if mut == 6 {
		remoteRef = "refs/remotes/origin/foos/short"
		localRef = "refs/foos/short"
		rt.Cover("invalid-ref-name")
	}
	var before []Operation
	if mut >= 8 && L >= 0 && d.reach(L)[opPos] {
		rt.Assume(false) // the local entity is readable by assumption
	}
	if L >= 0 {
		rt.Assume(d.i1Valid(L))
		inL := d.reach(L)
		for i := 0; i < d.n; i++ {
			if inL[i] && d.pack[i].bad {
				rt.Assume(false) // the local entity is readable by assumption
			}
		}
		d.repo.SetRef(localRef, d.hash[L])
	}
	d.repo.SetRef(remoteRef, d.hash[R])
	vhSetClocks(d, L)
	if L >= 0 {
		e, err := read(vhDef, vhWrap, d.repo, nil, localRef)
		rt.Assert(err == nil, "pre-local-readable")
		if err != nil {
			return
		}
		before = append(before, e.Operations()...)
	}
	d.repo.Log = nil
	var res entity.MergeResult
	panicked, pv := rt.Try(func() { res = merge(vhDef, vhWrap, d.repo, nil, remoteRef, vhAuthors[1]) })
	if panicked {
		rt.Debug("merge panic", pv, d.parents, L, R)
	}
	rt.Assert(!panicked, "hostile-merge-no-panic")
	if panicked {
		return
	}
	rt.Assert(res.Status != entity.MergeStatusError && res.Err == nil, "hostile-merge-no-internal-error")
	if mut == 5 || mut == 6 {
		rt.Assert(res.Status == entity.MergeStatusInvalid, "mismatching-ref-name-reported-invalid")
	}
	if mut == 7 {
		rt.Assert(res.Status == entity.MergeStatusInvalid, "empty-entity-reported-invalid")
	}
	if mut >= 8 && d.reach(R)[opPos] {
		rt.Assert(res.Status == entity.MergeStatusInvalid, "remote-with-a-bad-operation-reported-invalid")
	}
	if res.Status == entity.MergeStatusInvalid {
		rt.Cover("invalid-reported")
		for _, l := range d.repo.Log {
			rt.Assert(len(l) >= 7 && l[:7] == "Witness", "invalid-report-writes-nothing")
		}
	} else {
		rt.Cover("accepted-remote")
	}
	// whatever happened, a local entity that was readable still is, with all its operations
	if L >= 0 {
		after, err := read(vhDef, vhWrap, d.repo, nil, localRef)
		rt.Assert(err == nil, "local-entity-still-readable")
		if err == nil {
			ops := after.Operations()
			for _, b := range before {
				found := false
				for _, o := range ops {
					if o == b {
						found = true
					}
				}
				rt.Assert(found, "local-operations-kept")
			}
		}
	} else if res.Status == entity.MergeStatusNew {
		_, err := read(vhDef, vhWrap, d.repo, nil, localRef)
		rt.Assert(err == nil, "new-entity-readable")
	}
	rt.Observe("status", int(res.Status))
}
