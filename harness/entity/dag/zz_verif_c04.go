package dag

import (
	"fmt"

	"github.com/MichaelMure/git-bug/entity"
	"github.com/MichaelMure/git-bug/repository"
	"github.com/MichaelMure/git-bug/zzverif/rt"
	"github.com/MichaelMure/git-bug/zzverif/vrepo"
)

// VH_C04_commit: one real Entity.Commit step (new or existing entity, 1..3 staged
// operations by 1..2 authors in any pattern) from an arbitrary invariant state, then a
// real read: same operations in the same order, packs per author run, increasing edit
// times above every clock value seen before, stable id, invariants preserved.
func VH_C04_commit() {
	n := rt.Choose(rt.Param("N", 3) + 1)
	var d *vhDag
	var e *vhEntity
	var before []Operation
	ref := ""
	if n == 0 {
		vhResetPacks()
		d = &vhDag{repo: vrepo.New()}
		e = vhWrap(New(vhDef))
		rt.Cover("new-entity")
	} else {
		d = vhGenDag(n, false, 2)
		rt.Assume(d.i1Valid(n - 1))
		for i := 0; i < d.n; i++ {
			rt.Assume(rt.And(d.edit[i] < ^uint64(0)-8, d.create[i] < ^uint64(0)-8))
		}
		d.repo.SetRef(vhLocalRef, d.hash[n-1])
		ref = vhLocalRef
		var err error
		e, err = read(vhDef, vhWrap, d.repo, nil, vhLocalRef)
		rt.Assert(err == nil, "pre-state-readable")
		if err != nil {
			return
		}
		before = append(before, e.Operations()...)
		rt.Cover("existing-entity")
	}
	head := n - 1
	var E, C uint64
	if n == 0 {
		E, C = vhSetClocks(d, -1)
	} else {
		E, C = vhSetClocks(d, head)
	}
	// staged operations
	s := 1 + rt.Choose(rt.Param("S", 3))
	var staged []Operation
	runs := 0
	lastAuthor := -1
	for k := 0; k < s; k++ {
		a := rt.Choose(2)
		if a != lastAuthor {
			runs++
			lastAuthor = a
		}
		op := vhNewOp(100+k, vhAuthors[a])
		staged = append(staged, op)
		e.Append(op)
	}
	if runs > 1 {
		rt.Cover("several-authors")
	}
	idBefore := e.Id()
	// far-clock side condition (DESIGN.md section 5): the namespace clock is less than
	// 10^6 hops ahead of this entity's head
	near := true
	if n > 0 {
		near = E-vhMaxEdit(d, head) < uint64(1_000_000-s)
	}
	d.repo.Log = nil
	var cerr error
	panicked, _ := rt.Try(func() { cerr = e.Commit(d.repo) })
	rt.Assert(!panicked, "commit-no-panic")
	rt.Assert(cerr == nil, "commit-accepts-valid-entity")
	if cerr != nil {
		return
	}
	rt.Assert(e.Id() == idBefore, "id-stable-across-commit")
	if ref == "" {
		ref = fmt.Sprintf("refs/foos/%s", idBefore)
	}
	// exactly one ref written, last
	nref := 0
	for i, l := range d.repo.Log {
		if len(l) > 9 && l[:9] == "UpdateRef" {
			nref++
			rt.Assert(i == len(d.repo.Log)-1, "ref-update-is-last-mutation")
			rt.Assert(vhMentions(l, ref), "ref-update-targets-entity-ref")
		}
	}
	rt.Assert(nref == 1, "single-ref-update")

	// the new packs, walking first-parent from the new head down to the old head
	h, err := d.repo.ResolveRef(ref)
	rt.Assert(err == nil, "ref-exists")
	var oldHead repository.Hash
	if n > 0 {
		oldHead = d.hash[head]
	}
	packs := 0
	prevEdit := ^uint64(0)
	for h != oldHead && packs < 8 {
		c, err := d.repo.ReadCommit(h)
		rt.Assert(err == nil, "written-commit-readable")
		if err != nil {
			return
		}
		ct, et, err := readOperationPackClock(d.repo, c)
		rt.Assert(err == nil, "written-clocks-readable")
		rt.Assert(uint64(et) > E, "written-edit-time-above-clock")
		rt.Assert(uint64(et) < prevEdit, "edit-times-increase-along-chain")
		prevEdit = uint64(et)
		if len(c.Parents) == 0 {
			rt.Assert(n == 0 && uint64(ct) > C, "root-gets-fresh-creation-time")
		} else {
			rt.Assert(ct == 0, "creation-time-only-on-root")
			rt.Assert(len(c.Parents) == 1, "linear-chain")
		}
		packs++
		if len(c.Parents) == 0 {
			break
		}
		h = c.Parents[0]
	}
	rt.Assert(packs == runs, "one-pack-per-author-run")

	after, rerr := read(vhDef, vhWrap, d.repo, nil, ref)
	if near {
		rt.Assert(rerr == nil, "committed-entity-readable")
	} else {
		rt.Cover("far-clock")
		rt.Assert(rerr == nil, "commit-readable-far-clock")
	}
	if rerr != nil {
		return
	}
	got := after.Operations()
	rt.Assert(len(got) == len(before)+len(staged), "read-back-count")
	for i := range got {
		var want Operation
		if i < len(before) {
			want = before[i]
		} else if i-len(before) < len(staged) {
			want = staged[i-len(before)]
		}
		rt.Assert(got[i] == want, "read-back-same-operations-in-order")
	}
	rt.Assert(after.Id() == idBefore, "id-stable-across-reload")
	rt.Assert(after.Id() == got[0].Id(), "entity-id-is-first-operation-id")
	rt.Assert(uint64(d.repo.ClockTime(editClockName())) >= uint64(after.EditLamportTime()), "edit-clock-dominates-written")
	rt.Assert(uint64(d.repo.ClockTime(createClockName())) >= uint64(after.CreateLamportTime()), "create-clock-dominates-written")
	rt.Assert(after.Validate() == nil, "read-back-validates")
	rt.Observe("packs", packs)
	rt.Observe("nops", len(got))
	_ = entity.UnsetId
}


// vhFileOp is an operation with attached files.
type vhFileOp struct {
	vhOp
	files []repository.Hash
}

func (o *vhFileOp) GetFiles() []repository.Hash { return o.files }

// VH_C04_extratree: the files attached to the operations of a pack are referenced from
// the commit's tree (an "extra" sub-tree), each exactly once, whatever operations
// without files sit in between; the pack tree has exactly the documented entries, the
// markers pointing at the empty blob.
func VH_C04_extratree() {
	vhResetPacks()
	r := vrepo.New()
	catalogue := []repository.Hash{"1111111111111111111111111111111111111111", "2222222222222222222222222222222222222222", "3333333333333333333333333333333333333333"}
	nops := 1 + rt.Choose(rt.Param("OPS", 3))
	var ops []Operation
	attached := map[repository.Hash]bool{}
	for k := 0; k < nops; k++ {
		if rt.Choose(2) == 0 {
			ops = append(ops, vhNewOp(k, vhAuthors[0])) // no file support
			rt.Cover("op-without-files")
			continue
		}
		fo := &vhFileOp{vhOp: *vhNewOp(k, vhAuthors[0])}
		nf := rt.Choose(3)
		for f := 0; f < nf; f++ {
			h := catalogue[rt.Choose(len(catalogue))]
			fo.files = append(fo.files, h)
			attached[h] = true
		}
		ops = append(ops, fo)
	}
	opp := &operationPack{Author: vhAuthors[0], Operations: ops, EditTime: 5, CreateTime: 3}
	commit, err := opp.Write(vhDef, r)
	rt.Assert(err == nil, "pack-written")
	if err != nil {
		return
	}
	c, _ := r.ReadCommit(commit)
	entries, _ := r.ReadTree(c.TreeHash)
	names := map[string]int{}
	var extra repository.Hash
	for _, e := range entries {
		names[e.Name]++
		switch {
		case e.Name == opsEntryName:
			rt.Assert(e.ObjectType == repository.Blob, "ops-is-a-blob")
		case e.Name == extraEntryName:
			rt.Assert(e.ObjectType == repository.Tree, "extra-is-a-tree")
			extra = e.Hash
		default:
			data, derr := r.ReadData(e.Hash)
			rt.Assert(derr == nil && len(data) == 0 && e.ObjectType == repository.Blob, "marker-points-at-empty-blob")
		}
	}
	for n, k := range names {
		rt.Assert(k == 1, "tree-entry-names-unique:"+n[:1])
	}
	rt.Assert(names[opsEntryName] == 1 && names["version-1"] == 1 && names["edit-clock-5"] == 1 && names["create-clock-3"] == 1, "documented-tree-entries")
	if len(attached) == 0 {
		rt.Assert(extra == "", "no-extra-tree-without-files")
		return
	}
	rt.Cover("files-attached")
	rt.Assert(extra != "", "extra-tree-present")
	if extra == "" {
		return
	}
	fentries, _ := r.ReadTree(extra)
	seen := map[repository.Hash]int{}
	fnames := map[string]int{}
	for _, e := range fentries {
		seen[e.Hash]++
		fnames[e.Name]++
		rt.Assert(e.ObjectType == repository.Blob, "file-entry-is-a-blob")
	}
	for h := range attached {
		rt.Assert(seen[h] == 1, "every-attached-file-referenced-once")
	}
	rt.Assert(len(seen) == len(attached), "only-attached-files-referenced")
	for _, k := range fnames {
		rt.Assert(k == 1, "file-entry-names-unique")
	}
	if nops > 1 {
		rt.Cover("several-operations")
	}
}
