package dag

import (
	"fmt"

	"github.com/MichaelMure/git-bug/entities/identity"
	"github.com/MichaelMure/git-bug/repository"
	"github.com/MichaelMure/git-bug/zzverif/rt"
	"github.com/MichaelMure/git-bug/zzverif/vrepo"
)

// VH_C08_gate: the accept/reject decision of readOperationPack: keys in force and the
// commit unsigned or badly signed => refused with an error (never a crash); keys in
// force and a good signature => accepted; no key in force => accepted signed or not.
func VH_C08_gate() {
	vhResetPacks()
	r := vrepo.New()
	author := &vhAuthor{id: vhHexId(0xa7)}
	keyed := rt.Choose(2) == 1
	if keyed {
		nk := 1 + rt.Choose(2)
		for k := 0; k < nk; k++ {
			author.keys = append(author.keys, &identity.Key{})
		}
	}
	// a pack with an operation, or an empty one (what a merge commit holds): both are
	// statements made in the author's name and fall under the signature rule
	ops := []Operation{vhNewOp(0, author)}
	if rt.Choose(2) == 1 {
		ops = nil
		rt.Cover("empty-pack")
	}
	rec := vhNewPack(ops, author)
	blob := r.AddBlob([]byte(rec.token))
	empty := r.AddBlob([]byte{})
	edit := rt.NondetUint64()
	rt.Assume(edit > 0)
	tree := r.AddTree([]repository.TreeEntry{
		{ObjectType: repository.Blob, Hash: empty, Name: fmt.Sprintf(versionEntryPrefix+"%d", vhDef.FormatVersion)},
		{ObjectType: repository.Blob, Hash: blob, Name: opsEntryName},
		{ObjectType: repository.Blob, Hash: empty, Name: fmt.Sprintf(editClockEntryPrefix+"%d", edit)},
		{ObjectType: repository.Blob, Hash: empty, Name: createClockEntryPrefix + "1"},
	})
	h := r.AddCommit(tree)
	signed := rt.Choose(2) == 1
	sigOK := false
	if signed {
		sigOK = rt.Choose(2) == 1
		r.Commits[h].Signed = true
		r.Commits[h].SigOK = sigOK
		if sigOK && !rt.Symbolic() {
			rt.Assume(false) // a verifying signature cannot be produced for the native replay
		}
	}
	commit, _ := r.ReadCommit(h)
	var opp *operationPack
	var err error
	panicked, _ := rt.Try(func() { opp, err = readOperationPack(vhDef, r, nil, commit) })
	rt.Assert(!panicked, "signature-gate-no-panic")
	if panicked {
		return
	}
	switch {
	case !keyed:
		rt.Cover("no-key-in-force")
		rt.Assert(err == nil && opp != nil, "no-key-in-force-accepted")
	case !signed:
		rt.Cover("unsigned-by-keyed-author")
		rt.Assert(err != nil, "unsigned-commit-by-keyed-author-refused")
	case !sigOK:
		rt.Cover("bad-signature")
		rt.Assert(err != nil, "badly-signed-commit-refused")
	default:
		rt.Cover("good-signature")
		rt.Assert(err == nil && opp != nil, "well-signed-commit-accepted")
	}
	rt.Observe("keyed", keyed)
}
