package dag

import (
	"github.com/MichaelMure/git-bug/entity"
	"github.com/MichaelMure/git-bug/zzverif/rt"
	"github.com/MichaelMure/git-bug/zzverif/vfs"
	"github.com/MichaelMure/git-bug/zzverif/vrepo"
)

// vhReopen models opening the repository in a fresh process (OpenGoGitRepo): clock
// objects are gone; if a clock the entity needs cannot be loaded the clock loader (the
// real ReadAllClocksNoCheck) runs.
func vhReopen(d *vhDag) error {
	d.repo.Restart()
	need := false
	for _, name := range []string{createClockName(), editClockName()} {
		if _, err := d.repo.GetClock(name); err != nil {
			need = true
		}
	}
	if need {
		return ReadAllClocksNoCheck(vhDef, d.repo)
	}
	return nil
}

// vhArmCrash chooses the crash point: the k-th storage call (objects, refs, clock
// increments/witnesses) or the k-th filesystem mutation (clock file truncate/write).
func vhArmCrash(d *vhDag) {
	k := rt.Choose(rt.Param("K", 12))
	if rt.Choose(2) == 0 {
		d.repo.Mutations = 0
		d.repo.CrashAfter = k
		rt.Cover("crash-at-storage-call")
	} else {
		d.repo.FS.Mutations = 0
		d.repo.FS.CrashAfter = k
		rt.Cover("crash-at-clock-file-write")
	}
}

func vhIsCrash(pv any) bool {
	switch pv.(type) {
	case vrepo.Crash, vfs.Crash:
		return true
	}
	return false
}

func vhSameOps(a, b []Operation) bool {
	if len(a) != len(b) {
		return false
	}
	for i := range a {
		if a[i] != b[i] {
			return false
		}
	}
	return true
}

// VH_C06_commit: the process dies at any storage call or clock-file write of a Commit;
// after reopening the entity is readable and is exactly its old or its new state, the
// clocks dominate what is stored, and repeating the commit completes it.
func VH_C06_commit() {
	n := rt.Choose(rt.Param("N", 2) + 1)
	var d *vhDag
	var e *vhEntity
	var before []Operation
	ref := vhLocalRef
	if n == 0 {
		vhResetPacks()
		d = &vhDag{repo: vrepo.New()}
		e = vhWrap(New(vhDef))
	} else {
		d = vhGenDag(n, false, 2)
		rt.Assume(d.i1Valid(n - 1))
		for i := 0; i < d.n; i++ {
			rt.Assume(rt.And(d.edit[i] < ^uint64(0)-16, d.create[i] < ^uint64(0)-16))
		}
		d.repo.SetRef(vhLocalRef, d.hash[n-1])
		var err error
		e, err = read(vhDef, vhWrap, d.repo, nil, vhLocalRef)
		rt.Assume(err == nil)
		before = append(before, e.Operations()...)
	}
	var E uint64
	if n == 0 {
		E, _ = vhSetClocks(d, -1)
	} else {
		E, _ = vhSetClocks(d, n-1)
		rt.Assume(E-vhMaxEdit(d, n-1) < 1_000_000-8) // not the far-clock finding
	}
	s := 1 + rt.Choose(2)
	var staged []Operation
	for k := 0; k < s; k++ {
		op := vhNewOp(100+k, vhAuthors[rt.Choose(2)])
		staged = append(staged, op)
		e.Append(op)
	}
	if n == 0 {
		ref = "refs/foos/" + string(e.Id())
	}
	want := append(append([]Operation{}, before...), staged...)

	vhArmCrash(d)
	var cerr error
	panicked, pv := rt.Try(func() { cerr = e.Commit(d.repo) })
	if panicked {
		rt.Assert(vhIsCrash(pv), "only-the-injected-crash-panics")
		rt.Cover("crashed")
	} else {
		rt.Assert(cerr == nil, "uninterrupted-commit-succeeds")
		rt.Cover("not-crashed")
	}

	// ---- new process ----
	rt.Assert(vhReopen(d) == nil, "repository-opens-after-crash")
	exists, _ := d.repo.RefExist(ref)
	var got []Operation
	if exists {
		// before anything is read (reading witnesses clocks): the reopened clocks are not
		// lower than the time stored at the entity's head
		if hh, herr := d.repo.ResolveRef(ref); herr == nil {
			if hc, cerr2 := d.repo.ReadCommit(hh); cerr2 == nil {
				_, het, _ := readOperationPackClock(d.repo, hc)
				rt.Assert(uint64(d.repo.ClockTime(editClockName())) >= uint64(het), "reopened-clock-not-lower-than-stored")
			}
		}
		after, err := read(vhDef, vhWrap, d.repo, nil, ref)
		rt.Assert(err == nil, "entity-readable-after-crash")
		if err != nil {
			return
		}
		got = after.Operations()
		rt.Assert(uint64(d.repo.ClockTime(editClockName())) >= uint64(after.EditLamportTime()), "clock-dominates-stored-after-crash")
	} else {
		rt.Assert(n == 0, "existing-entity-ref-survives")
	}
	isOld := vhSameOps(got, before)
	isNew := vhSameOps(got, want)
	rt.Assert(isOld || isNew, "old-or-new-state-never-a-mixture")
	if !panicked {
		rt.Assert(isNew, "completed-commit-is-visible")
	}
	_ = E

	// ---- repeating the interrupted action completes it ----
	if isOld && !isNew {
		rt.Cover("retried")
		var e2 *vhEntity
		if exists {
			var err error
			e2, err = read(vhDef, vhWrap, d.repo, nil, ref)
			rt.Assert(err == nil, "re-read-for-retry")
			if err != nil {
				return
			}
		} else {
			e2 = vhWrap(New(vhDef))
		}
		for _, op := range staged {
			e2.Append(op)
		}
		rt.Assert(e2.Commit(d.repo) == nil, "retry-commit-succeeds")
		fin, err := read(vhDef, vhWrap, d.repo, nil, ref)
		rt.Assert(err == nil && vhSameOps(fin.Operations(), want), "retry-reaches-new-state")
	}
}

// VH_C06_merge: the same for a merge of diverged heads.
func VH_C06_merge() {
	n := 3 + rt.Choose(rt.Param("N", 4)-2)
	d := vhGenDag(n, false, 2)
	L := rt.Choose(n)
	R := rt.Choose(n)
	rt.Assume(L != R)
	rt.Assume(d.i1Valid(L))
	rt.Assume(d.i1Valid(R))
	for i := 0; i < d.n; i++ {
		rt.Assume(rt.And(d.edit[i] < ^uint64(0)-16, d.create[i] < ^uint64(0)-16))
	}
	d.repo.SetRef(vhLocalRef, d.hash[L])
	d.repo.SetRef(vhRemoteRef, d.hash[R])
	E, _ := vhSetClocks(d, L)
	pre, err := read(vhDef, vhWrap, d.repo, nil, vhLocalRef)
	rt.Assume(err == nil)
	before := append([]Operation{}, pre.Operations()...)
	// expected merged operations: what an uninterrupted merge gives (reference run on the
	// union, as an order-free set)
	wantSet := vhOpsOf(d, L)
	for o := range vhOpsOf(d, R) {
		wantSet[o] = true
	}
	diverged := !d.reach(L)[R] && !d.reach(R)[L]
	if diverged {
		rt.Cover("diverged-merge")
	}

	vhArmCrash(d)
	var res entity.MergeResult
	panicked, pv := rt.Try(func() { res = merge(vhDef, vhWrap, d.repo, nil, vhRemoteRef, vhAuthors[1]) })
	if panicked {
		rt.Assert(vhIsCrash(pv), "only-the-injected-crash-panics")
		rt.Cover("crashed")
	} else {
		rt.Assert(res.Err == nil, "uninterrupted-merge-succeeds")
	}
	rt.Assert(vhReopen(d) == nil, "repository-opens-after-crash")
	if hh, herr := d.repo.ResolveRef(vhLocalRef); herr == nil {
		if hc, cerr2 := d.repo.ReadCommit(hh); cerr2 == nil {
			_, het, _ := readOperationPackClock(d.repo, hc)
			rt.Assert(uint64(d.repo.ClockTime(editClockName())) >= uint64(het), "reopened-clock-not-lower-than-stored")
		}
	}
	after, err := read(vhDef, vhWrap, d.repo, nil, vhLocalRef)
	rt.Assert(err == nil, "entity-readable-after-crash")
	if err != nil {
		return
	}
	got := after.Operations()
	isOld := vhSameOps(got, before)
	isNew := len(got) == len(wantSet)
	for _, o := range got {
		if !wantSet[o] {
			isNew = false
		}
	}
	rt.Assert(isOld || isNew, "old-or-new-state-never-a-mixture")
	rt.Assert(uint64(d.repo.ClockTime(editClockName())) >= uint64(after.EditLamportTime()), "clock-dominates-stored-after-crash")
	_ = E
	if !isNew {
		rt.Cover("retried")
		res2 := merge(vhDef, vhWrap, d.repo, nil, vhRemoteRef, vhAuthors[1])
		rt.Assert(res2.Err == nil && res2.Status != entity.MergeStatusInvalid, "retry-merge-succeeds")
		fin, err := read(vhDef, vhWrap, d.repo, nil, vhLocalRef)
		rt.Assert(err == nil, "readable-after-retry")
		if err == nil {
			ops := fin.Operations()
			rt.Assert(len(ops) == len(wantSet), "retry-reaches-new-state")
		}
	}
}
