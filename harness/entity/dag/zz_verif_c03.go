package dag

import (
	"github.com/MichaelMure/git-bug/zzverif/rt"
	"github.com/MichaelMure/git-bug/zzverif/vrepo"
)

// vhSwapParents lets 2-parent commits list their parents in either order.
var vhSwapParents = false

// vhMut applies one structural mutation to an otherwise produced-shape history
// (valid mode only): 1 = commit pos becomes an additional root, 2 = the root pos has no
// creation clock, 3 = the merge commit pos carries an operation, 4 = the pack of pos is
// undecodable, 5 = no pack holds any operation (an empty entity), 6 = an operation of pos
// fails its own validation, 7 = an operation of pos is authored by somebody else than its
// pack, 8 = an operation of pos repeats the id of the first operation. Clock values are
// symbolic and unconstrained in any case.
var vhMut struct{ kind, pos int }

// vhFixedShape, when set, replaces the enumeration of parent assignments by one given
// produced shape (used to reach deeper histories than the exhaustive bound allows).
var vhFixedShape [][]int

// vhGenDag builds a symbolic commit table of n commits. In valid mode the shape obeys
// what Commit/merge produce (one root, 1..2 parents, merges empty); clock values are
// symbolic in both modes and constrained by the caller.
func vhGenDag(n int, hostile bool, maxParents int) *vhDag {
	vhResetPacks()
	d := &vhDag{repo: vrepo.New()}
	nop := 0
	for i := 0; i < n; i++ {
		var ps []int
		if vhFixedShape != nil {
			ps = append(ps, vhFixedShape[i]...)
		} else if hostile {
			ps = vhChooseParents(i, 0, maxParents)
		} else {
			ps = vhChooseParents(i, 1, 2)
		}
		if vhSwapParents && len(ps) == 2 && rt.Choose(2) == 1 {
			ps[0], ps[1] = ps[1], ps[0]
		}
		mutHere := !hostile && vhMut.kind != 0 && vhMut.pos == i
		if mutHere && vhMut.kind == 1 {
			ps = nil
		}
		edit := rt.NondetUint64()
		create := uint64(0)
		hasCreate := false
		if len(ps) == 0 || (hostile && rt.Choose(2) == 1) {
			hasCreate = true
			create = rt.NondetUint64()
		}
		if hostile && len(ps) == 0 && rt.Choose(2) == 1 {
			hasCreate = false // root without a creation clock
		}
		if mutHere && vhMut.kind == 2 {
			if len(ps) != 0 {
				rt.Assume(false)
			}
			hasCreate = false
		}
		author := vhAuthors[0]
		var ops []Operation
		nops := 1
		if i == 0 {
			nops = 2
		}
		if len(ps) >= 2 {
			nops = 0
			if hostile && rt.Choose(2) == 1 {
				nops = 1 // merge commit carrying an operation
			}
			if mutHere && vhMut.kind == 3 {
				nops = 1
			}
		} else if mutHere && vhMut.kind == 3 {
			rt.Assume(false)
		}
		if !hostile && vhMut.kind == 5 {
			nops = 0 // a history without any operation
		}
		if mutHere && vhMut.kind >= 6 && nops == 0 {
			rt.Assume(false) // no operation to spoil here
		}
		for k := 0; k < nops; k++ {
			op := vhNewOp(nop, author)
			if mutHere && k == nops-1 {
				switch vhMut.kind {
				case 6:
					op.Bad = true
				case 7:
					op = vhNewOp(nop, vhAuthors[1])
				case 8:
					if nop == 0 {
						rt.Assume(false) // nothing to repeat yet
					}
					op = vhNewOp(0, author) // the id of the very first operation again
				}
			}
			ops = append(ops, op)
			nop++
		}
		d.vhAddCommit(ps, edit, create, hasCreate, ops, author)
		if mutHere && vhMut.kind == 4 {
			d.pack[i].bad = true
		}
	}
	return d
}

// VH_C03_read: the real read on an arbitrary (hostile) history: no panic; acceptance
// implies a well-formed history (I1); a well-formed history is accepted; the order is
// (edit time, pack id, index in pack) and never puts a descendant first.
func VH_C03_read() {
	n := 1 + rt.Choose(rt.Param("N", 4))
	d := vhGenDag(n, true, rt.Param("MAXP", 2))
	vhReadBody(d, n)
}

// VH_C03_read_deep: the same oracle on the deeper produced shapes of vhDeepShapes (a plain
// commit on top of a merge, stacked merges, a merge of merges), with arbitrary clocks and
// pack ids: shapes the exhaustive bound of VH_C03_read does not reach.
func VH_C03_read_deep() {
	vhFixedShape = vhDeepShapes[rt.Choose(rt.Param("DEEP", len(vhDeepShapes)))]
	defer func() { vhFixedShape = nil }()
	n := len(vhFixedShape)
	d := vhGenDag(n, false, 2)
	rt.Cover("deep-shape")
	vhReadBody(d, n)
}

func vhReadBody(d *vhDag, n int) {
	head := n - 1
	d.repo.SetRef("refs/foos/x", d.hash[head])
	valid := d.i1Valid(head)
	acceptable := d.noListedDefect(head)
	var e *vhEntity
	var err error
	panicked, pv := rt.Try(func() { e, err = read(vhDef, vhWrap, d.repo, nil, "refs/foos/x") })
	if panicked {
		rt.Debug("panic", pv, d.parents)
	}
	rt.Assert(!panicked, "read-no-panic")
	if err != nil {
		rt.Cover("refused")
		rt.Assert(!valid, "well-formed-history-accepted")
		return
	}
	rt.Cover("accepted")
	rt.Assert(acceptable, "accepted-history-is-well-formed")
	in := d.reach(head)
	// expected multiset of operations
	total := 0
	for i := 0; i < d.n; i++ {
		if in[i] {
			total += len(d.pack[i].ops)
		}
	}
	ops := e.Operations()
	rt.Assert(len(ops) == total, "all-reachable-operations-once")
	// position of each commit's first op in the result
	pos := make([]int, d.n)
	for i := 0; i < d.n; i++ {
		pos[i] = -1
		if !in[i] || len(d.pack[i].ops) == 0 {
			continue
		}
		for k, o := range ops {
			if o == d.pack[i].ops[0] {
				pos[i] = k
			}
		}
		rt.Assert(pos[i] >= 0, "reachable-operation-present")
		// the pack's operations are contiguous and in stored order
		for j, po := range d.pack[i].ops {
			rt.Assert(pos[i]+j < len(ops) && ops[pos[i]+j] == po, "pack-operations-in-stored-order")
		}
	}
	for i := 0; i < d.n; i++ {
		for j := 0; j < d.n; j++ {
			if i == j || pos[i] < 0 || pos[j] < 0 {
				continue
			}
			if pos[i] < pos[j] {
				// documented order: edit time, then pack id
				rt.Assert(rt.Or(d.edit[i] < d.edit[j], rt.And(d.edit[i] == d.edit[j], d.pack[i].id < d.pack[j].id)), "order-by-edit-time-then-pack-id")
				if d.edit[i] == d.edit[j] {
					rt.Cover("tie-break")
				}
			}
		}
		// causality: an ancestor's operations come first
		if pos[i] >= 0 {
			anc := d.reach(i)
			for a := 0; a < d.n; a++ {
				if a != i && anc[a] && pos[a] >= 0 {
					rt.Assert(pos[a] < pos[i], "ancestor-first")
				}
			}
		}
	}
	// returned clocks are the maxima, and the repository clocks dominate what was read
	var maxE, maxC uint64
	for i := 0; i < d.n; i++ {
		if in[i] {
			maxE = rt.IteU64(d.edit[i] > maxE, d.edit[i], maxE)
			if d.hasCreate[i] {
				maxC = rt.IteU64(d.create[i] > maxC, d.create[i], maxC)
			}
		}
	}
	rt.Assert(uint64(e.EditLamportTime()) == maxE, "edit-time-is-max")
	rt.Assert(uint64(e.CreateLamportTime()) == maxC, "create-time-is-max")
	rt.Assert(uint64(d.repo.ClockTime(editClockName())) >= maxE, "edit-clock-dominates-read")
	rt.Assert(uint64(d.repo.ClockTime(createClockName())) >= maxC, "create-clock-dominates-read")
	if n >= 3 {
		rt.Cover("accepted-3")
	}
	rt.Observe("n", n)
	rt.Observe("nops", len(ops))
}
