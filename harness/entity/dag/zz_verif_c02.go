package dag

import (
	"github.com/MichaelMure/git-bug/entity"
	"github.com/MichaelMure/git-bug/repository"
	"github.com/MichaelMure/git-bug/util/lamport"
	"github.com/MichaelMure/git-bug/zzverif/rt"
)

const vhLocalRef = "refs/foos/0000000000000000000000000000000000000000000000000000000000001000"
const vhRemoteRef = "refs/remotes/origin/foos/0000000000000000000000000000000000000000000000000000000000001000"
const vhOtherRef = "refs/foos/00000000000000000000000000000000000000000000000000000000000fffff"

func vhOpsOf(d *vhDag, head int) map[Operation]bool {
	out := map[Operation]bool{}
	in := d.reach(head)
	for i := 0; i < d.n; i++ {
		if in[i] {
			for _, o := range d.pack[i].ops {
				out[o] = true
			}
		}
	}
	return out
}

func vhMaxEdit(d *vhDag, head int) uint64 {
	var m uint64
	in := d.reach(head)
	for i := 0; i < d.n; i++ {
		if in[i] {
			m = rt.IteU64(d.edit[i] > m, d.edit[i], m)
		}
	}
	return m
}

// vhSetClocks puts the repository clocks in an arbitrary state that dominates what is
// reachable from the local head (invariant I2).
func vhSetClocks(d *vhDag, localHead int) (E, C uint64) {
	E = rt.NondetUint64()
	C = rt.NondetUint64()
	rt.Assume(E >= 1 && C >= 1 && E < ^uint64(0)-8 && C < ^uint64(0)-8)
	if localHead >= 0 {
		rt.Assume(E >= vhMaxEdit(d, localHead))
		rt.Assume(C >= d.create[0])
	}
	d.repo.SetClock(editClockName(), lamport.Time(E))
	d.repo.SetClock(createClockName(), lamport.Time(C))
	return
}

// vhDeepShapes: produced histories beyond the exhaustive bound: an already-merged side,
// branches of unequal length, a merge of merges.
var vhDeepShapes = [][][]int{
	{{}, {0}, {0}, {1, 2}, {1}},            // merge M(A,B) on one side, C on top of A on the other
	{{}, {0}, {0}, {1, 2}, {1}, {3, 4}},    // two stacked merges: H(M(A,B), X) with X a child of A
	{{}, {0}, {0}, {1, 2}, {3}},            // a plain commit on top of a merge commit
	{{}, {0}, {0}, {2}, {3}, {1, 4}},       // branch lengths 1 vs 3, already merged
	{{}, {0}, {0}, {1, 2}, {2, 1}, {3}},    // both sides merged the same heads, one moved on
	{{}, {0}, {1}, {0}, {2, 3}, {3}, {4, 5}}, // merge of a merge
}

// VH_C02_merge_deep: the same merge step on the deeper shapes of vhDeepShapes.
func VH_C02_merge_deep() {
	vhFixedShape = vhDeepShapes[rt.Choose(rt.Param("DEEP", len(vhDeepShapes)))]
	defer func() { vhFixedShape = nil }()
	vhMergeStep(len(vhFixedShape))
}

// VH_C02_merge: one real merge step from an arbitrary well-formed state.
func VH_C02_merge() {
	vhMergeStep(1 + rt.Choose(rt.Param("N", 4)))
}

func vhMergeStep(n int) {
	d := vhGenDag(n, false, 2)
	R := rt.Choose(n)
	L := rt.Choose(n+1) - 1 // -1: entity absent locally
	rt.Assume(d.i1Valid(R))
	for i := 0; i < d.n; i++ {
		// no clock near the 64-bit wrap (DESIGN.md observation O1)
		rt.Assume(rt.And(d.edit[i] < ^uint64(0)-8, d.create[i] < ^uint64(0)-8))
	}
	if L >= 0 {
		rt.Assume(d.i1Valid(L))
		d.repo.SetRef(vhLocalRef, d.hash[L])
	}
	d.repo.SetRef(vhRemoteRef, d.hash[R])
	// an unrelated local entity that must not be touched
	d.repo.SetRef(vhOtherRef, d.hash[0])
	E, _ := vhSetClocks(d, L)
	d.repo.Log = nil

	var res entity.MergeResult
	panicked, pv := rt.Try(func() { res = merge(vhDef, vhWrap, d.repo, nil, vhRemoteRef, vhAuthors[1]) })
	if panicked {
		rt.Debug("panic", pv, d.parents, L, R)
	}
	rt.Assert(!panicked, "merge-no-panic")
	rt.Assert(res.Err == nil && res.Status != entity.MergeStatusError && res.Status != entity.MergeStatusInvalid, "valid-remote-merges")
	if res.Err != nil || res.Status == entity.MergeStatusInvalid {
		return
	}

	post, err := d.repo.ResolveRef(vhLocalRef)
	rt.Assert(err == nil, "local-ref-exists-after")
	other, _ := d.repo.ResolveRef(vhOtherRef)
	rt.Assert(other == d.hash[0], "other-entity-untouched")
	remoteAfter, _ := d.repo.ResolveRef(vhRemoteRef)
	rt.Assert(remoteAfter == d.hash[R], "remote-ref-untouched")
	for _, l := range d.repo.Log {
		if len(l) > 9 && (l[:9] == "UpdateRef" || l[:7] == "CopyRef" || l[:9] == "RemoveRef") {
			rt.Assert(vhMentions(l, vhLocalRef), "only-the-entity-ref-is-written")
		}
	}

	var wantOps map[Operation]bool
	changed := true
	switch {
	case L < 0:
		rt.Cover("new")
		rt.Assert(res.Status == entity.MergeStatusNew, "status-new")
		rt.Assert(post == d.hash[R], "new-ref-is-remote-head")
		wantOps = vhOpsOf(d, R)
	case L == R:
		rt.Cover("equal")
		changed = false
		rt.Assert(res.Status == entity.MergeStatusNothing, "status-nothing-equal")
		rt.Assert(post == d.hash[L], "equal-ref-unchanged")
		wantOps = vhOpsOf(d, L)
	case d.reach(L)[R]:
		rt.Cover("local-ahead")
		changed = false
		rt.Assert(res.Status == entity.MergeStatusNothing, "status-nothing-local-ahead")
		rt.Assert(post == d.hash[L], "local-ahead-ref-unchanged")
		wantOps = vhOpsOf(d, L)
	case d.reach(R)[L]:
		rt.Cover("fast-forward")
		rt.Assert(res.Status == entity.MergeStatusUpdated, "status-updated-ff")
		rt.Assert(post == d.hash[R], "ff-ref-is-remote-head")
		wantOps = vhOpsOf(d, R)
	default:
		rt.Cover("diverged")
		rt.Assert(res.Status == entity.MergeStatusUpdated, "status-updated-merge")
		c, err := d.repo.ReadCommit(post)
		rt.Assert(err == nil && post != d.hash[L] && post != d.hash[R], "merge-commit-created")
		if err == nil {
			rt.Assert(len(c.Parents) == 2 && vhSameSet(c.Parents, d.hash[L], d.hash[R]), "merge-commit-parents")
			_, et, cerr := readOperationPackClock(d.repo, c)
			rt.Assert(cerr == nil, "merge-commit-clock-readable")
			rt.Assert(uint64(et) > E, "merge-commit-after-clock")
			rt.Assert(rt.And(uint64(et) > vhMaxEdit(d, L), uint64(et) > vhMaxEdit(d, R)), "merge-commit-after-both-branches")
		}
		wantOps = vhOpsOf(d, L)
		for o := range vhOpsOf(d, R) {
			wantOps[o] = true
		}
	}
	// report agrees with what changed
	wrote := false
	for _, l := range d.repo.Log {
		if len(l) > 9 && (l[:9] == "UpdateRef" || l[:7] == "CopyRef") {
			wrote = true
		}
	}
	rt.Assert(wrote == changed, "ref-written-iff-reported-change")

	// the merged entity is readable and holds everything of both sides
	after, rerr := read(vhDef, vhWrap, d.repo, nil, vhLocalRef)
	rt.Assert(rerr == nil, "local-entity-readable-after-merge")
	if rerr != nil {
		return
	}
	got := after.Operations()
	rt.Assert(len(got) == len(wantOps), "merged-operation-count")
	for _, o := range got {
		rt.Assert(wantOps[o], "merged-operation-expected")
	}
	if res.Status == entity.MergeStatusNew || res.Status == entity.MergeStatusUpdated {
		rt.Assert(res.Entity != nil, "result-entity-present")
		if res.Entity != nil {
			re := res.Entity.(*vhEntity).Operations()
			rt.Assert(len(re) == len(got), "result-entity-is-merged-result")
			for i := range re {
				if i < len(got) {
					rt.Assert(re[i] == got[i], "result-entity-same-order")
				}
			}
		}
	}
	// I2 afterwards: clocks dominate everything reachable from the local ref
	rt.Assert(uint64(d.repo.ClockTime(editClockName())) >= uint64(after.EditLamportTime()), "edit-clock-dominates-after-merge")
	rt.Assert(uint64(d.repo.ClockTime(editClockName())) >= E, "edit-clock-never-lowered")
	rt.Observe("status", int(res.Status))
	rt.Observe("nops", len(got))
}

func vhMentions(logLine, ref string) bool {
	for i := 0; i+len(ref) <= len(logLine); i++ {
		if logLine[i:i+len(ref)] == ref && (i+len(ref) == len(logLine) || logLine[i+len(ref)] == ' ') && logLine[i-1] == ' ' {
			// the written ref is the last ref argument for CopyRef, the first for UpdateRef
			return true
		}
	}
	return false
}

func vhSameSet(ps []repository.Hash, a, b repository.Hash) bool {
	return (ps[0] == a && ps[1] == b) || (ps[0] == b && ps[1] == a)
}
