package dag

import (
	"github.com/MichaelMure/git-bug/entities/identity"
	"github.com/MichaelMure/git-bug/entity"
)

// VHSetId presets the id of an operation (harness helper, overlay only): operation ids
// are hashes of their JSON form, which the harnesses cut (M-PACK).
func VHSetId(op Operation, id entity.Id) { op.setId(id) }

// VHNewOpBase builds an OpBase with a preset id.
func VHNewOpBase(opType OperationType, author identity.Interface, unixTime int64, id entity.Id) OpBase {
	return OpBase{OperationType: opType, author: author, UnixTime: unixTime, Nonce: make([]byte, 20), id: id}
}

// VHCloneBase copies an OpBase including its metadata maps.
func VHCloneBase(b OpBase) OpBase {
	c := b
	if b.Metadata != nil {
		c.Metadata = map[string]string{}
		for k, v := range b.Metadata {
			c.Metadata[k] = v
		}
	}
	if b.extraMetadata != nil {
		c.extraMetadata = map[string]string{}
		for k, v := range b.extraMetadata {
			c.extraMetadata[k] = v
		}
	}
	return c
}

func (op *SetMetadataOperation[SnapT]) VHClone() Operation {
	c := *op
	c.OpBase = VHCloneBase(op.OpBase)
	return &c
}

func (op *NoOpOperation[SnapT]) VHClone() Operation {
	c := *op
	c.OpBase = VHCloneBase(op.OpBase)
	return &c
}

