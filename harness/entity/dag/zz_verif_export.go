package dag

import (
	"github.com/MichaelMure/git-bug/entities/identity"
	"github.com/MichaelMure/git-bug/entity"
)

// VHSetId presets the id of an operation (harness helper, overlay only): operation ids
// are hashes of their JSON form, which the harnesses cut (M-PACK).
func VHSetId(op Operation, id entity.Id) { op.setId(id) }

// VHNewOpBase builds an OpBase with a preset id.
func VHNewOpBase(opType OperationType, author identity.Interface, unixTime int64, id entity.Id) OpBase {
	return OpBase{OperationType: opType, author: author, UnixTime: unixTime, Nonce: make([]byte, 20), id: id}
}
