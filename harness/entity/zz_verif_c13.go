package entity

import "github.com/MichaelMure/git-bug/zzverif/rt"

// vhId returns an id of 64 symbolic bytes drawn from the id alphabet [0-9a-z].
func vhId() Id {
	b := rt.NondetBytes(idLength)
	for _, c := range b {
		rt.Assume(rt.IdByte(c))
	}
	return Id(b)
}

// VH_C13_interleave: every prefix of a combined id splits into a prefix of the primary
// and a prefix of the secondary id, following the documented pattern.
func VH_C13_interleave() {
	primary, secondary := vhId(), vhId()
	c := CombineIds(primary, secondary)
	rt.Assert(len(c) == idLength, "combined-length")
	L := rt.Choose(idLength + 1)
	pp, sp := SeparateIds(string(c)[:L])
	rt.Assert(len(pp)+len(sp) == L, "split-lengths-sum")
	rt.Assert(len(pp) <= 50 && len(sp) <= 14, "split-bounds")
	rt.Assert(pp == string(primary)[:len(pp)], "primary-prefix")
	rt.Assert(sp == string(secondary)[:len(sp)], "secondary-prefix")
	rt.Assert(primary.HasPrefix(pp) && secondary.HasPrefix(sp), "hasprefix-both")
	// documented break-down
	switch L {
	case 5:
		rt.Assert(len(pp) == 3 && len(sp) == 2, "doc-5")
	case 7:
		rt.Assert(len(pp) == 4 && len(sp) == 3, "doc-7")
	case 10:
		rt.Assert(len(pp) == 6 && len(sp) == 4, "doc-10")
	case 16:
		rt.Assert(len(pp) == 11 && len(sp) == 5, "doc-16")
	case 64:
		rt.Cover("full")
		rt.Assert(len(pp) == 50 && len(sp) == 14, "doc-64")
		rt.Assert(CombinedId(c).PrimaryPrefix() == pp && CombinedId(c).SecondaryPrefix() == sp, "helpers-agree")
	}
	// a longer prefix never yields shorter parts (monotone)
	if L > 0 {
		pp2, sp2 := SeparateIds(string(c)[:L-1])
		rt.Assert(len(pp2) <= len(pp) && len(sp2) <= len(sp) && len(pp2)+len(sp2) == L-1, "monotone")
	}
	rt.Observe("L", L)
	rt.Observe("lp", len(pp))
}
