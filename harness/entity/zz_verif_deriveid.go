package entity

import "github.com/MichaelMure/git-bug/zzverif/vreg"

// DeriveId (M-PACK): registered opaque blobs get their registered id (an uninterpreted,
// injective stand-in for SHA-256); everything else is hashed for real.
func DeriveId(data []byte) Id {
	vreg.Mu.Lock()
	id, ok := vreg.BlobIds[string(data)]
	vreg.Mu.Unlock()
	if ok {
		return Id(id)
	}
	return DeriveId__orig(data)
}
