package query

import (
	"github.com/MichaelMure/git-bug/entities/common"
	"github.com/MichaelMure/git-bug/zzverif/rt"
)

// VH_C12_nopanic: Parse on every byte string up to L bytes never panics and returns
// either a query or an error.
func VH_C12_nopanic() {
	s := rt.NondetString(rt.Param("L", 3))
	var q *Query
	var err error
	panicked, _ := rt.Try(func() { q, err = Parse(s) })
	rt.Assert(!panicked, "parse-no-panic")
	if err != nil {
		rt.Cover("rejected")
		rt.Assert(q == nil, "error-means-no-query")
		return
	}
	rt.Cover("accepted")
	rt.Assert(q != nil, "ok-means-query")
	rt.Assert(q.OrderBy == OrderById || q.OrderBy == OrderByCreation || q.OrderBy == OrderByEdit, "order-by-valid")
	rt.Assert(q.OrderDirection == OrderAscending || q.OrderDirection == OrderDescending, "order-dir-valid")
	for _, st := range q.Status {
		rt.Assert(st == common.OpenStatus || st == common.ClosedStatus, "status-valid")
	}
	for _, t := range q.Search {
		rt.Assert(len(t) > 0 || len(s) >= 2, "search-term-nonempty-unless-quoted")
	}
	if len(q.Search) > 0 {
		rt.Cover("search-term")
	}
}

// ordinary reports (without forking) whether c is a printable ASCII byte that is
// neither a separator (space, colon) nor a quote.
func vhOrdinary(c byte) bool {
	return rt.And(rt.And(c > 0x20, c < 0x7f), rt.And(rt.And(c != '"', c != '\''), c != ':'))
}

// inQuotes reports whether c may appear inside a double-quoted value.
func vhQuotable(c byte) bool {
	return rt.And(rt.And(c >= 0x20, c < 0x7f), c != '"')
}

type vhItem struct {
	kind  int
	key   string // rendered qualifier (and sub qualifier)
	value string // expected value after parsing
	text  string // rendered text
}

// vhValue draws a value and its rendering: bare (ordinary bytes only) or double quoted
// (may contain spaces, colons and single quotes).
func vhValue(maxLen int) (value, rendered string) {
	n := 1 + rt.Choose(maxLen)
	b := rt.NondetBytes(n)
	if rt.Choose(2) == 0 {
		for _, c := range b {
			rt.Assume(vhOrdinary(c))
		}
		return string(b), string(b)
	}
	rt.Cover("quoted-value")
	for _, c := range b {
		rt.Assume(vhQuotable(c))
	}
	return string(b), "\"" + string(b) + "\""
}

var vhSorts = []struct {
	s   string
	by  OrderBy
	dir OrderDirection
}{
	{"id-desc", OrderById, OrderDescending}, {"id", OrderById, OrderAscending}, {"id-asc", OrderById, OrderAscending},
	{"creation", OrderByCreation, OrderDescending}, {"creation-desc", OrderByCreation, OrderDescending}, {"creation-asc", OrderByCreation, OrderAscending},
	{"edit", OrderByEdit, OrderDescending}, {"edit-desc", OrderByEdit, OrderDescending}, {"edit-asc", OrderByEdit, OrderAscending},
}

// VH_C12_roundtrip: a query rendered through the documented grammar parses to exactly
// the filters, search terms and sort it denotes.
func VH_C12_roundtrip() {
	nItems := 1 + rt.Choose(rt.Param("ITEMS", 2))
	vl := rt.Param("VL", 2)
	want := Query{OrderBy: OrderByCreation, OrderDirection: OrderDescending}
	text := ""
	sorted := false
	for k := 0; k < nItems; k++ {
		if k > 0 {
			text += " "
		}
		switch rt.Choose(11) {
		case 0:
			if rt.Choose(2) == 0 {
				text += "status:open"
				want.Status = append(want.Status, common.OpenStatus)
			} else {
				text += "state:closed"
				want.Status = append(want.Status, common.ClosedStatus)
			}
		case 1:
			v, r := vhValue(vl)
			text += "author:" + r
			want.Author = append(want.Author, v)
		case 2:
			v, r := vhValue(vl)
			text += "actor:" + r
			want.Actor = append(want.Actor, v)
		case 3:
			v, r := vhValue(vl)
			text += "participant:" + r
			want.Participant = append(want.Participant, v)
		case 4:
			v, r := vhValue(vl)
			text += "label:" + r
			want.Label = append(want.Label, v)
		case 5:
			v, r := vhValue(vl)
			text += "title:" + r
			want.Title = append(want.Title, v)
		case 6:
			text += "no:label"
			want.NoLabel = true
		case 7:
			kk, kr := vhValue(vl)
			v, r := vhValue(vl)
			text += "metadata:" + kr + ":" + r
			want.Metadata = append(want.Metadata, StringPair{Key: kk, Value: v})
			rt.Cover("metadata")
		case 8:
			rt.Assume(!sorted)
			sorted = true
			so := vhSorts[rt.Choose(len(vhSorts))]
			text += "sort:" + so.s
			want.OrderBy, want.OrderDirection = so.by, so.dir
			rt.Cover("sort")
		case 9:
			v, r := vhValue(vl)
			text += r
			want.Search = append(want.Search, v)
			rt.Cover("search")
		case 10:
			// a second sort must be rejected
			rt.Assume(sorted)
			text += "sort:id"
			rt.Cover("double-sort")
			_, err := Parse(text)
			rt.Assert(err != nil, "double-sort-rejected")
			return
		}
	}
	rt.Observe("text", text)
	q, err := Parse(text)
	rt.Assert(err == nil, "grammar-query-accepted")
	if err != nil {
		return
	}
	rt.Assert(vhEqStrs(q.Search, want.Search), "search-terms")
	rt.Assert(vhEqStrs(q.Author, want.Author), "author")
	rt.Assert(vhEqStrs(q.Actor, want.Actor), "actor")
	rt.Assert(vhEqStrs(q.Participant, want.Participant), "participant")
	rt.Assert(vhEqStrs(q.Label, want.Label), "label")
	rt.Assert(vhEqStrs(q.Title, want.Title), "title")
	rt.Assert(q.NoLabel == want.NoLabel, "no-label")
	rt.Assert(len(q.Status) == len(want.Status), "status-count")
	for i := range want.Status {
		if i < len(q.Status) {
			rt.Assert(q.Status[i] == want.Status[i], "status")
		}
	}
	rt.Assert(len(q.Metadata) == len(want.Metadata), "metadata-count")
	for i := range want.Metadata {
		if i < len(q.Metadata) {
			rt.Assert(rt.And(q.Metadata[i].Key == want.Metadata[i].Key, q.Metadata[i].Value == want.Metadata[i].Value), "metadata")
		}
	}
	rt.Assert(q.OrderBy == want.OrderBy && q.OrderDirection == want.OrderDirection, "sort")
	rt.Cover("checked")
}

func vhEqStrs(a, b []string) bool {
	if len(a) != len(b) {
		return false
	}
	r := true
	for i := range a {
		r = rt.And(r, a[i] == b[i])
	}
	return r
}

// VH_C12_malformed: a field with an empty qualifier, sub-qualifier or value — a leading or
// trailing colon, or a run of colons — is not in the documented language and is rejected
// with an error, whatever valid qualifier and value surround it.
func VH_C12_malformed() {
	type kv struct{ q, v string }
	items := []kv{{"status", "open"}, {"author", "rene"}, {"label", "bug"}, {"title", "word"}, {"no", "label"}, {"sort", "id-asc"}, {"metadata", "key:value"}}
	it := items[rt.Choose(len(items))]
	seps := 1 + rt.Choose(3) // 1 = well formed
	lead := rt.Choose(2) == 1
	trail := rt.Choose(2) == 1
	in := it.q
	for k := 0; k < seps; k++ {
		in += ":"
	}
	in += it.v
	if lead {
		in = ":" + in
	}
	if trail {
		in += ":"
	}
	if rt.Choose(2) == 1 {
		in = "word " + in + "  other" // next to other fields
	}
	var err error
	panicked, _ := rt.Try(func() { _, err = Parse(in) })
	rt.Assert(!panicked, "parse-no-panic")
	if seps == 1 && !lead && !trail {
		rt.Assert(err == nil, "well-formed-field-accepted")
		rt.Cover("well-formed")
	} else {
		rt.Assert(err != nil, "empty-qualifier-or-value-rejected")
		rt.Cover("malformed")
	}
}
