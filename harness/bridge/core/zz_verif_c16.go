package core

import (
	"context"
	"fmt"
	"time"

	"github.com/MichaelMure/git-bug/cache"
	"github.com/MichaelMure/git-bug/zzverif/rt"
	"github.com/MichaelMure/git-bug/zzverif/vrepo"
)

type vhImporter struct {
	events []ImportResult
	since  time.Time
	slow   bool // the listing takes longer than the safety margin of the cursor
}

func (i *vhImporter) Init(ctx context.Context, repo *cache.RepoCache, conf Configuration) error {
	return nil
}

func (i *vhImporter) ImportAll(ctx context.Context, repo *cache.RepoCache, since time.Time) (<-chan ImportResult, error) {
	i.since = since
	out := make(chan ImportResult)
	go func() {
		defer close(out)
		if i.slow {
			time.Sleep(5200 * time.Millisecond)
		}
		for _, e := range i.events {
			out <- e
		}
	}()
	return out, nil
}

// VH_C16_cursor: the stored "last import" cursor advances iff the import round relayed
// no error event; every event is relayed in order; the next round resumes from the
// stored cursor.
func VH_C16_cursor() {
	r := vrepo.New()
	rc := cache.VHBareRepoCache(r)
	n := rt.Choose(rt.Param("EV", 4) + 1)
	imp := &vhImporter{}
	kinds := []ImportEvent{ImportEventBug, ImportEventComment, ImportEventNothing, ImportEventWarning, ImportEventRateLimiting, ImportEventError}
	hasError := false
	for k := 0; k < n; k++ {
		ev := kinds[rt.Choose(len(kinds))]
		if ev == ImportEventError {
			hasError = true
		}
		imp.events = append(imp.events, ImportResult{Event: ev})
	}
	const key = "git-bug.bridge.b.lastImportTime"
	hadCursor := rt.Choose(2) == 1
	old := time.Unix(1600000000, 0)
	if hadCursor {
		_ = r.LocalConfig().StoreTimestamp(key, old)
	}
	// a long import (only for clean first/next rounds without events, to keep the native
	// validation short): something may change on the tracker while it runs
	if n == 0 && rt.Choose(2) == 1 {
		imp.slow = true
		rt.Cover("slow-import")
	}
	b := &Bridge{Name: "b", repo: rc, importer: imp, conf: Configuration{"target": "x"}, initImportDone: true}
	started := time.Now()
	out, err := b.ImportAll(context.Background())
	rt.Assert(err == nil, "import-starts")
	if err != nil {
		return
	}
	got := 0
	for e := range out {
		rt.Assert(got < n && e.Event == imp.events[got].Event, "events-relayed-in-order")
		got++
	}
	rt.Assert(got == n, "all-events-relayed")
	if hadCursor {
		rt.Assert(imp.since.Equal(old), "round-resumes-from-stored-cursor")
	} else {
		rt.Assert(imp.since.IsZero(), "first-round-imports-everything")
	}
	ts, terr := r.LocalConfig().ReadTimestamp(key)
	if hasError {
		rt.Cover("failed-round")
		if hadCursor {
			rt.Assert(terr == nil && ts.Equal(old), "cursor-not-advanced-after-error")
		} else {
			rt.Assert(terr != nil, "no-cursor-after-failed-first-round")
		}
	} else {
		rt.Cover("clean-round")
		rt.Assert(terr == nil, "cursor-stored-after-clean-round")
		if terr == nil {
			rt.Assert(ts.After(old), "cursor-advanced")
			// whatever changed on the tracker after the round started must be listed by
			// the next round: the cursor is not later than the start of this one
			rt.Assert(!ts.After(started), "cursor-not-later-than-the-start-of-the-round")
		}
	}
	_ = fmt.Sprint
}
