package gitlab

import (
	"time"

	"github.com/xanzy/go-gitlab"

	"github.com/MichaelMure/git-bug/bridge/core"
	"github.com/MichaelMure/git-bug/cache"
	"github.com/MichaelMure/git-bug/zzverif/rt"
)

// VH_C16_once: importing an issue and one of its events twice (the tracker state was
// already imported) creates no new bug and no new operation; the first import creates
// exactly one operation carrying the event's id.
func VH_C16_once() {
	fx := cache.VHNewFixture()
	rc, err := cache.NewRepoCacheNoEvents(fx.Repo)
	rt.Assume(err == nil)
	out := make(chan core.ImportResult, 32)
	gi := &gitlabImporter{conf: core.Configuration{confKeyGitlabBaseUrl: "https://gitlab.example", confKeyProjectID: "42"}, out: out}
	t0 := time.Unix(1600000000, 0)
	t1 := time.Unix(1600000100, 0)
	issue := &gitlab.Issue{IID: 5, Title: "issue title", Description: "issue text", Author: &gitlab.IssueAuthor{ID: 7}, CreatedAt: &t0, WebURL: "https://gitlab.example/p/issues/5"}

	nBugs := len(rc.Bugs().AllIds())
	b, err := gi.ensureIssue(rc, issue)
	rt.Assert(err == nil && b != nil, "issue-imported")
	if err != nil {
		return
	}
	rt.Assert(len(rc.Bugs().AllIds()) == nBugs+1, "first-import-creates-the-bug")
	b2, err := gi.ensureIssue(rc, issue)
	rt.Assert(err == nil && b2 != nil && b2.Id() == b.Id(), "second-import-finds-the-bug")
	rt.Assert(len(rc.Bugs().AllIds()) == nBugs+1, "second-import-creates-no-bug")

	var ev Event
	expectOp := true
	editable := false
	switch rt.Choose(8) {
	case 0:
		n := gitlab.Note{ID: 100, Body: "a comment", CreatedAt: &t1, UpdatedAt: &t1}
		n.Author.ID = 7
		ev = NoteEvent{n}
		editable = true
		rt.Cover("comment")
	case 7:
		// text that the sanitiser alters (trailing blanks, carriage returns, a control byte)
		n := gitlab.Note{ID: 107, Body: "line one  \r\nline\x07 two\t \n\n", CreatedAt: &t1, UpdatedAt: &t1}
		n.Author.ID = 7
		ev = NoteEvent{n}
		editable = true
		rt.Cover("comment-needing-cleanup")
	case 1:
		ev = StateEvent{gitlab.StateEvent{ID: 101, User: &gitlab.BasicUser{ID: 7}, CreatedAt: &t1, State: "closed"}}
		rt.Cover("closed")
	case 2:
		ev = StateEvent{gitlab.StateEvent{ID: 102, User: &gitlab.BasicUser{ID: 7}, CreatedAt: &t1, State: "reopened"}}
		rt.Cover("reopened")
	case 3:
		n := gitlab.Note{ID: 103, Body: "changed title from **old** to **new**", System: true, CreatedAt: &t1, UpdatedAt: &t1}
		n.Author.ID = 7
		ev = NoteEvent{n}
		rt.Cover("title")
	case 4:
		le := gitlab.LabelEvent{ID: 104, Action: "add", CreatedAt: &t1}
		le.User.ID = 7
		le.Label.Name = "bug"
		ev = LabelEvent{le}
		rt.Cover("add-label")
	case 5:
		le := gitlab.LabelEvent{ID: 105, Action: "remove", CreatedAt: &t1}
		le.User.ID = 7
		le.Label.Name = "bug"
		ev = LabelEvent{le}
		rt.Cover("remove-label")
	default:
		n := gitlab.Note{ID: 106, Body: "locked this issue", System: true, CreatedAt: &t1, UpdatedAt: &t1}
		n.Author.ID = 7
		ev = NoteEvent{n}
		expectOp = false
		rt.Cover("ignored-kind")
	}
	ops0 := len(b.Snapshot().Operations)
	rt.Assert(gi.ensureIssueEvent(rc, b, issue, ev) == nil, "event-imported")
	ops1 := len(b.Snapshot().Operations)
	if expectOp {
		rt.Assert(ops1 == ops0+1, "first-import-records-one-operation")
		last := b.Snapshot().Operations[ops1-1]
		v, ok := last.GetMetadata(metaKeyGitlabId)
		rt.Assert(ok && v == ev.ID(), "operation-carries-the-event-id")
	} else {
		rt.Assert(ops1 == ops0, "ignored-event-records-nothing")
	}
	rt.Assert(b.CommitAsNeeded() == nil, "commit")
	// the tracker did not change: importing the same event again
	rt.Assert(gi.ensureIssueEvent(rc, b, issue, ev) == nil, "event-re-imported")
	ops2 := len(b.Snapshot().Operations)
	rt.Assert(ops2 == ops1, "re-import-records-no-operation")
	if editable {
		// the tracker changed: the comment was edited there
		t2 := time.Unix(1600000200, 0)
		n := ev.(NoteEvent).Note
		n.Body = n.Body + " (edited)  \r\n"
		n.UpdatedAt = &t2
		ev2 := NoteEvent{n}
		rt.Assert(gi.ensureIssueEvent(rc, b, issue, ev2) == nil, "edit-imported")
		ops3 := len(b.Snapshot().Operations)
		rt.Assert(ops3 == ops2+1, "tracker-edit-records-exactly-one-operation")
		rt.Assert(b.CommitAsNeeded() == nil, "commit-edit")
		rt.Assert(gi.ensureIssueEvent(rc, b, issue, ev2) == nil, "edit-re-imported")
		rt.Assert(len(b.Snapshot().Operations) == ops3, "re-import-of-the-edit-records-no-operation")
		rt.Cover("edited-on-tracker")
	}
	if nev, isNote := ev.(NoteEvent); isNote && !nev.System && editable {
		// GitLab numbers notes, label events and state events independently: a state event
		// may carry the number of a note that was already imported
		t3 := time.Unix(1600000300, 0)
		same := StateEvent{gitlab.StateEvent{ID: nev.Note.ID, User: &gitlab.BasicUser{ID: 7}, CreatedAt: &t3, State: "closed"}}
		before := len(b.Snapshot().Operations)
		rt.Cover("colliding-event-number")
		rt.Assert(gi.ensureIssueEvent(rc, b, issue, same) == nil, "colliding-event-imported")
		rt.Assert(len(b.Snapshot().Operations) == before+1, "event-of-another-kind-with-the-same-number-is-imported")
	}
	rt.Observe("ops", ops2)
}
