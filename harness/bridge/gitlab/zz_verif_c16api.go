package gitlab

// C16 — import rounds against a simulated GitLab API with a failure injected at any
// request index. The real gitlabImporter.ImportAll, the real Issues / Notes / LabelEvents /
// StateEvents iterators (paging), SortedEvents, ensureIssue and ensureIssueEvent are
// executed; only the four go-gitlab client calls are redirected (text substitution in the
// overlay copy of gitlab_api.go) to the tracker model below, which pages with one element
// per page and fails the chosen request (identified by kind, issue and page, since the
// iterators of one issue run concurrently), either with an HTTP error response
// or with no response at all (transport failure), as go-gitlab does.

import (
	"context"
	"errors"
	"fmt"
	"sort"
	"sync"
	"time"

	"github.com/xanzy/go-gitlab"

	"github.com/MichaelMure/git-bug/bridge/core"
	"github.com/MichaelMure/git-bug/cache"
	"github.com/MichaelMure/git-bug/zzverif/rt"
)

type vhTracker struct {
	issues   []*gitlab.Issue
	notes    map[int][]*gitlab.Note
	labels   map[int][]*gitlab.LabelEvent
	states   map[int][]*gitlab.StateEvent
	mu       sync.Mutex
	requests []string // identities of the requests served, e.g. "notes:5:2"
	failOn   string   // identity of the request that fails (once), "": none
	failed   bool
	noResp   bool // the failing request yields no response object (transport failure)
}

var vhT *vhTracker

// begin registers a request by its identity (kind, issue, page) - not by its position in
// time: the iterators of one issue run concurrently, their order is not fixed.
func (t *vhTracker) begin(kind string, iid, page int) (fail bool) {
	t.mu.Lock()
	defer t.mu.Unlock()
	if page < 1 {
		page = 1
	}
	id := fmt.Sprintf("%s:%d:%d", kind, iid, page)
	t.requests = append(t.requests, id)
	if id == t.failOn && !t.failed {
		t.failed = true
		return true
	}
	return false
}

func (t *vhTracker) failure() (*gitlab.Response, error) {
	if t.noResp {
		return nil, errors.New("dial tcp: connection refused")
	}
	return &gitlab.Response{}, errors.New("GET: 500 Internal Server Error")
}

// one element per page; page 0 and 1 both mean the first page
func vhPage(n, page int) (idx int, resp *gitlab.Response) {
	if page < 1 {
		page = 1
	}
	return page - 1, &gitlab.Response{CurrentPage: page, TotalPages: n, NextPage: page + 1}
}

func vhListProjectIssues(pid string, opts *gitlab.ListProjectIssuesOptions) ([]*gitlab.Issue, *gitlab.Response, error) {
	t := vhT
	if t.begin("issues", 0, opts.Page) {
		resp, err := t.failure()
		return nil, resp, err
	}
	i, resp := vhPage(len(t.issues), opts.Page)
	if i >= len(t.issues) {
		return nil, resp, nil
	}
	return []*gitlab.Issue{t.issues[i]}, resp, nil
}

func vhListIssueNotes(pid interface{}, iid int, opts *gitlab.ListIssueNotesOptions) ([]*gitlab.Note, *gitlab.Response, error) {
	t := vhT
	if t.begin("notes", iid, opts.Page) {
		resp, err := t.failure()
		return nil, resp, err
	}
	i, resp := vhPage(len(t.notes[iid]), opts.Page)
	if i >= len(t.notes[iid]) {
		return nil, resp, nil
	}
	return []*gitlab.Note{t.notes[iid][i]}, resp, nil
}

func vhListLabelEvents(pid interface{}, iid int, opts *gitlab.ListLabelEventsOptions) ([]*gitlab.LabelEvent, *gitlab.Response, error) {
	t := vhT
	if t.begin("labels", iid, opts.Page) {
		resp, err := t.failure()
		return nil, resp, err
	}
	i, resp := vhPage(len(t.labels[iid]), opts.Page)
	if i >= len(t.labels[iid]) {
		return nil, resp, nil
	}
	return []*gitlab.LabelEvent{t.labels[iid][i]}, resp, nil
}

func vhListStateEvents(pid interface{}, iid int, opts *gitlab.ListStateEventsOptions) ([]*gitlab.StateEvent, *gitlab.Response, error) {
	t := vhT
	if t.begin("states", iid, opts.Page) {
		resp, err := t.failure()
		return nil, resp, err
	}
	i, resp := vhPage(len(t.states[iid]), opts.Page)
	if i >= len(t.states[iid]) {
		return nil, resp, nil
	}
	return []*gitlab.StateEvent{t.states[iid][i]}, resp, nil
}

func vhAt(sec int64) *time.Time { t := time.Unix(1600000000+sec, 0); return &t }

func (t *vhTracker) addIssue(iid int, title, text string, at int64) {
	t.issues = append(t.issues, &gitlab.Issue{IID: iid, ProjectID: 42, Title: title, Description: text,
		Author: &gitlab.IssueAuthor{ID: 7}, CreatedAt: vhAt(at), WebURL: "https://gitlab.example/p/issues"})
}

func (t *vhTracker) addNote(iid, id int, body string, at int64) {
	n := &gitlab.Note{ID: id, Body: body, CreatedAt: vhAt(at), UpdatedAt: vhAt(at)}
	n.Author.ID = 7
	t.notes[iid] = append(t.notes[iid], n)
}

func (t *vhTracker) addLabel(iid, id int, action, name string, at int64) {
	le := &gitlab.LabelEvent{ID: id, Action: action, CreatedAt: vhAt(at)}
	le.User.ID = 7
	le.Label.Name = name
	t.labels[iid] = append(t.labels[iid], le)
}

func (t *vhTracker) addState(iid, id int, state string, at int64) {
	t.states[iid] = append(t.states[iid], &gitlab.StateEvent{ID: id, User: &gitlab.BasicUser{ID: 7}, CreatedAt: vhAt(at), State: gitlab.EventTypeValue(state)})
}

func vhNewTracker() *vhTracker {
	t := &vhTracker{notes: map[int][]*gitlab.Note{}, labels: map[int][]*gitlab.LabelEvent{}, states: map[int][]*gitlab.StateEvent{}}
	t.addIssue(5, "first issue", "text of the first  \r\n", 0)
	t.addNote(5, 100, "a comment", 10)
	t.addLabel(5, 101, "add", "bug", 20)
	t.addNote(5, 102, "changed title from **first issue** to **first issue{+ renamed+}**", 30)
	t.notes[5][1].System = true
	t.addState(5, 103, "closed", 40)
	t.addIssue(6, "second issue", "text", 50)
	t.addNote(6, 104, "hostile \x07 text\t \r\n", 60)
	// a title change whose new title holds a control character and trailing blanks
	t.addNote(6, 105, "changed title from **second issue** to **second\x07 issue{+ two+} **", 70)
	t.notes[6][1].System = true
	return t
}

type vhBugState struct {
	title    string
	status   string
	comments int
	labels   int
	ops      int
}

// vhState: what the repository shows of the imported bugs, keyed by GitLab issue number.
func vhState(rc *cache.RepoCache) map[string]vhBugState {
	out := map[string]vhBugState{}
	for _, id := range rc.Bugs().AllIds() {
		b, err := rc.Bugs().Resolve(id)
		if err != nil {
			continue
		}
		s := b.Snapshot()
		iid, ok := s.Operations[0].GetMetadata(metaKeyGitlabId)
		if !ok {
			continue // not an imported bug
		}
		out[iid] = vhBugState{title: s.Title, status: s.Status.String(), comments: len(s.Comments), labels: len(s.Labels), ops: len(s.Operations)}
	}
	return out
}

// vhRound runs one import round and reports whether it reported an error.
func vhRound(gi *gitlabImporter, rc *cache.RepoCache) (reportedError bool) {
	res, err := gi.ImportAll(context.Background(), rc, time.Time{})
	if err != nil {
		return true
	}
	for r := range res {
		if r.Err != nil || r.Event == core.ImportEventError {
			reportedError = true
		}
	}
	return
}

// VH_C16_rounds: round 1 with a failure at any request index (or none), round 2 clean,
// round 3 clean after the tracker has grown, round 4 clean and unchanged.
func VH_C16_rounds() {
	conf := core.Configuration{confKeyGitlabBaseUrl: "https://gitlab.example", confKeyProjectID: "42"}

	// reference: an import that never failed, on its own repository
	t := vhNewTracker()
	vhT = t
	fxRef := cache.VHNewFixture()
	rcRef, err := cache.NewRepoCacheNoEvents(fxRef.Repo)
	rt.Assume(err == nil)
	giRef := &gitlabImporter{conf: conf}
	rt.Assert(!vhRound(giRef, rcRef), "clean-import-reports-no-error")
	want := vhState(rcRef)
	// the requests of a clean round, as a set of identities
	served := append([]string{}, t.requests...)
	sort.Strings(served)
	total := len(served)
	rt.Assert(len(want) == 2, "reference-imports-both-issues")

	// the run under test
	fx := cache.VHNewFixture()
	rc, err := cache.NewRepoCacheNoEvents(fx.Repo)
	rt.Assume(err == nil)
	gi := &gitlabImporter{conf: conf}
	t.requests = nil
	f := rt.Choose(total + 1)
	if f < total {
		t.failOn = served[f]
		t.noResp = rt.Choose(2) == 1
		rt.Cover("failure-injected")
		if t.noResp {
			rt.Cover("transport-failure")
		}
	} else {
		rt.Cover("no-failure")
	}
	var reported bool
	panicked, _ := rt.Try(func() { reported = vhRound(gi, rc) })
	rt.Assert(!panicked, "api-failure-no-crash")
	if panicked {
		return
	}
	if t.failOn != "" {
		// otherwise the bridge would store the cursor and never list the missed issues again
		rt.Assert(reported, "api-failure-reported")
	} else {
		rt.Assert(!reported, "clean-import-reports-no-error")
	}

	// a subsequent clean run ends in the same bugs as an import that never failed
	t.failOn = ""
	rt.Assert(!vhRound(gi, rc), "clean-round-reports-no-error")
	got := vhState(rc)
	rt.Assert(len(got) == len(want), "same-bugs-as-never-failed-import")
	for iid, w := range want {
		g, ok := got[iid]
		rt.Assert(ok, "same-bugs-as-never-failed-import")
		rt.Assert(g.title == w.title && g.status == w.status && g.comments == w.comments && g.labels == w.labels, "same-bug-state-as-never-failed-import")
		rt.Assert(g.ops == w.ops, "same-operations-as-never-failed-import")
	}

	// the tracker grows: exactly the new events are imported
	t.addNote(5, 110, "a later comment", 100)
	t.addState(5, 111, "reopened", 110)
	t.addIssue(7, "third issue", "", 120)
	rt.Assert(!vhRound(gi, rc), "growth-round-reports-no-error")
	grown := vhState(rc)
	rt.Assert(len(grown) == 3, "new-issue-imported-once")
	rt.Assert(grown["5"].ops == got["5"].ops+2 && grown["5"].comments == got["5"].comments+1 && grown["5"].status == "open", "exactly-the-new-events-imported")
	rt.Assert(grown["6"].ops == got["6"].ops, "untouched-issue-gets-no-operation")

	// nothing changed: nothing is created
	rt.Assert(!vhRound(gi, rc), "idle-round-reports-no-error")
	idle := vhState(rc)
	same := len(idle) == len(grown)
	for iid, w := range grown {
		if idle[iid] != w {
			same = false
		}
	}
	rt.Assert(same, "re-import-creates-nothing")
	rt.Observe("requests", total)
}
