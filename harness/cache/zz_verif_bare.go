package cache

import "github.com/MichaelMure/git-bug/repository"

// VHBareRepoCache builds a RepoCache that only wraps the repository (no sub-caches, no
// lock): enough for code that uses it as repository.RepoConfig. Overlay only.
func VHBareRepoCache(r repository.ClockedRepo) *RepoCache {
	return &RepoCache{repo: r, name: "default"}
}
