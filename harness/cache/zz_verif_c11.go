package cache

import (
	"fmt"

	"github.com/MichaelMure/git-bug/entities/bug"
	"github.com/MichaelMure/git-bug/entities/identity"
	"github.com/MichaelMure/git-bug/entity"
	"github.com/MichaelMure/git-bug/entity/dag"
	"github.com/MichaelMure/git-bug/repository"
	"github.com/MichaelMure/git-bug/util/lamport"
	"github.com/MichaelMure/git-bug/zzverif/rt"
	"github.com/MichaelMure/git-bug/zzverif/vrepo"
)

var vhCompareAuthors bool

func vhBugId(n int) entity.Id { return entity.Id(fmt.Sprintf("%08x%056x", 0xb0000000+n, 0)) }
func vhOpId(n int) entity.Id  { return entity.Id(fmt.Sprintf("%08x%056x", 0xc0000000+n, 0)) }

type vhWorld struct {
	r     *vrepo.Repo
	alice *identity.Identity
	bob   *identity.Identity
	clock uint64
}

// vhNewWorld: a model repository holding the identities alice (the user) and bob.
func vhNewWorld() *vhWorld {
	dag.VHResetPacks()
	identity.VHReset()
	w := &vhWorld{r: vrepo.New()}
	w.alice = identity.VHStoreIdentity(w.r, "alice", 1, true, "")
	w.bob = identity.VHStoreIdentityMeta(w.r, "bob", 1, true, "", map[string]string{"gitlab-id": "7", "gitlab-login": "bob"})
	_ = w.r.LocalConfig().StoreString("git-bug.identity", w.alice.Id().String())
	return w
}

func (w *vhWorld) tick() uint64 { w.clock++; return w.clock }

// storeBug stores a bug (create + extra title changes) and returns its id and head.
func (w *vhWorld) storeBug(n int, author identity.Interface, title string, extra int) (entity.Id, repository.Hash) {
	id := vhBugId(n)
	t := w.tick()
	h := dag.VHStoreCommit(w.r, bug.VHFormatVersion, nil, t, t, []dag.Operation{bug.VHCreateOp(author, id, title, "msg")}, author)
	for k := 0; k < extra; k++ {
		h = dag.VHStoreCommit(w.r, bug.VHFormatVersion, []repository.Hash{h}, w.tick(), 0,
			[]dag.Operation{bug.VHAddCommentOp(author, vhOpId(n*16+k), fmt.Sprintf("c%d", k))}, author)
	}
	return id, h
}

func (w *vhWorld) syncClocks() {
	w.r.SetClock("bugs-edit", lamport.Time(w.clock))
	w.r.SetClock("bugs-create", lamport.Time(w.clock))
}

// vhCoherent compares what the live cache serves with a cache rebuilt from the git data
// (fresh cache directory, fresh index): ids, excerpts, resolved state, index documents.
func vhCoherent(c *RepoCache, w *vhWorld, tag string) {
	// rebuild on a copy of the git data without cache files / index
	rb := vhRebuild(w)
	rbIndex, _ := rb.repo.GetIndex("bugs")
	rbDocs := rbIndex.(*vrepo.Index).Docs
	live := c.Bugs().AllIds()
	ref := rb.Bugs().AllIds()
	rt.Assert(len(live) == len(ref), "same-bug-ids-as-rebuild"+tag)
	for _, id := range ref {
		le, lerr := c.Bugs().ResolveExcerpt(id)
		re, rerr := rb.Bugs().ResolveExcerpt(id)
		rt.Assert(lerr == nil && rerr == nil, "bug-listed-as-in-rebuild"+tag)
		if lerr != nil || rerr != nil {
			continue
		}
		rt.Assert(le.Title == re.Title && le.LenComments == re.LenComments && le.Status == re.Status, "excerpt-as-in-rebuild"+tag)
		rt.Assert(le.EditLamportTime == re.EditLamportTime && le.CreateLamportTime == re.CreateLamportTime, "excerpt-clocks-as-in-rebuild"+tag)
		sameMeta := len(le.CreateMetadata) == len(re.CreateMetadata)
		for k, v := range re.CreateMetadata {
			if le.CreateMetadata[k] != v {
				sameMeta = false
			}
		}
		rt.Assert(sameMeta, "excerpt-create-metadata-as-in-rebuild"+tag)
		sameLabels := len(le.Labels) == len(re.Labels)
		for k := range re.Labels {
			if k < len(le.Labels) && le.Labels[k] != re.Labels[k] {
				sameLabels = false
			}
		}
		rt.Assert(sameLabels, "excerpt-labels-as-in-rebuild"+tag)
		lb, lerr2 := c.Bugs().Resolve(id)
		rbb, rerr2 := rb.Bugs().Resolve(id)
		rt.Assert(lerr2 == nil && rerr2 == nil, "bug-resolves-as-in-rebuild"+tag)
		if lerr2 == nil && rerr2 == nil {
			ls, rs := lb.Snapshot(), rbb.Snapshot()
			rt.Assert(ls.Title == rs.Title && len(ls.Comments) == len(rs.Comments) && len(ls.Operations) == len(rs.Operations), "snapshot-as-in-rebuild"+tag)
			// the incrementally maintained snapshot equals a compilation from scratch, down
			// to the metadata attached to its operations
			for k := range rs.Operations {
				if k < len(ls.Operations) {
					lm, rm := ls.Operations[k].AllMetadata(), rs.Operations[k].AllMetadata()
					same := len(lm) == len(rm)
					for key, v := range rm {
						if lm[key] != v {
							same = false
						}
					}
					rt.Assert(same, "operation-metadata-as-in-rebuild"+tag)
				}
			}
			rt.Assert(len(ls.Labels) == len(rs.Labels) && len(ls.Timeline) == len(rs.Timeline), "labels-timeline-as-in-rebuild"+tag)
			// the people shown with the bug are the current versions of their identities.
			// Compared only where the outcome does not depend on the schedule: the cache
			// builds its sub-caches in parallel, and whether a bug loaded during the build
			// shares its author's IdentityCache instance with the identity sub-cache depends
			// on which goroutine got there first (DESIGN §11.3, open C11 finding).
			if vhCompareAuthors && ls.Author != nil && rs.Author != nil {
				rt.Assert(ls.Author.Id() == rs.Author.Id(), "bug-author-as-in-rebuild"+tag)
				rt.Assert(ls.Author.Name() == rs.Author.Name(), "bug-author-name-as-in-rebuild"+tag)
			}
		}
		// searchable: the index document exists
		li, _ := w.r.GetIndex("bugs")
		docs := li.(*vrepo.Index).Docs
		doc, has := docs[id.String()]
		rt.Assert(has, "bug-searchable-as-in-rebuild"+tag)
		want := rbDocs[id.String()]
		same := len(doc) == len(want)
		for k := range want {
			if k < len(doc) && doc[k] != want[k] {
				same = false
			}
		}
		rt.Assert(same, "search-document-as-in-rebuild"+tag)
	}
	// the known labels
	ll, rl := c.Bugs().ValidLabels(), rb.Bugs().ValidLabels()
	sameValid := len(ll) == len(rl)
	for k := range rl {
		if k < len(ll) && ll[k] != rl[k] {
			sameValid = false
		}
	}
	rt.Assert(sameValid, "known-labels-as-in-rebuild"+tag)
	lid := c.Identities().AllIds()
	rid := rb.Identities().AllIds()
	rt.Assert(len(lid) == len(rid), "same-identity-ids-as-rebuild"+tag)
	for _, id := range rid {
		le, lerr := c.Identities().ResolveExcerpt(id)
		re, rerr := rb.Identities().ResolveExcerpt(id)
		rt.Assert(lerr == nil && rerr == nil, "identity-listed-as-in-rebuild"+tag)
		if lerr == nil && rerr == nil {
			rt.Assert(le.Name == re.Name, "identity-excerpt-as-in-rebuild"+tag)
		}
	}
}

// vhRebuild builds a second cache from the same git data with an empty cache directory
// and fresh indexes.
func vhRebuild(w *vhWorld) *RepoCache {
	r2 := vrepo.New()
	r2.Blobs, r2.Trees, r2.Commits = w.r.Blobs, w.r.Trees, w.r.Commits
	r2.Refs = append([]vrepo.Ref{}, w.r.Refs...)
	for k, v := range w.r.Remotes {
		r2.Remotes[k] = v
	}
	_ = r2.LocalConfig().StoreString("git-bug.identity", w.alice.Id().String())
	// same clock files
	for p, c := range w.r.FS.Files {
		if len(p) > 7 && p[:7] == "clocks/" {
			r2.FS.Files[p] = c
		}
	}
	c, err := NewRepoCacheNoEvents(r2)
	if err != nil {
		rt.Unsupported("rebuild failed: " + err.Error())
	}
	return c
}

// VH_C11_build: a cache built from git data serves what a second rebuild serves; after
// close and reopen (load path) it still does.
func VH_C11_build() {
	w := vhNewWorld()
	nb := rt.Choose(3)
	for n := 0; n < nb; n++ {
		author := identity.Interface(w.alice)
		if rt.Choose(2) == 1 {
			author = w.bob
		}
		id, h := w.storeBug(n, author, fmt.Sprintf("title%d", n), rt.Choose(2))
		w.r.SetRef("refs/bugs/"+id.String(), h)
	}
	w.syncClocks()
	c, err := NewRepoCacheNoEvents(w.r)
	rt.Assert(err == nil, "cache-builds")
	if err != nil {
		return
	}
	vhCoherent(c, w, "")
	rt.Assert(c.Close() == nil, "cache-closes")
	c2, err := NewRepoCacheNoEvents(w.r)
	rt.Assert(err == nil, "cache-reopens")
	if err != nil {
		return
	}
	vhCoherent(c2, w, "-after-reopen")
	rt.Cover("built")
	rt.Observe("nb", nb)
}

func vhDrain(ch <-chan entity.MergeResult) []entity.MergeResult {
	var out []entity.MergeResult
	for r := range ch {
		out = append(out, r)
	}
	return out
}

// VH_C11_mergeall: from a coherent cache, the remote-tracking refs take new values (a new
// bug, a fast-forward, a diverged bug, a new identity, a new identity version) and the
// real RepoCache.MergeAll runs: the cache must again serve what a rebuild serves -
// new and updated bugs listed, resolved with the merged history, and searchable.
func VH_C11_mergeall() {
	vhCompareAuthors = true
	defer func() { vhCompareAuthors = false }()
	w := vhNewWorld()
	w.r.Remotes["origin"] = "url"
	id0, h0 := w.storeBug(0, w.alice, "t0", 0)
	w.r.SetRef("refs/bugs/"+id0.String(), h0)
	idb, hb := w.storeBug(3, w.bob, "by bob", 0)
	w.r.SetRef("refs/bugs/"+idb.String(), hb)
	w.syncClocks()
	c, err := NewRepoCacheNoEvents(w.r)
	rt.Assert(err == nil, "cache-builds")
	if err != nil {
		return
	}
	// what the fetch brought
	scenario := rt.Choose(6)
	switch scenario {
	case 5: // remote ahead of a bug that is loaded here with a staged, uncommitted edit
		lb, lerr := c.Bugs().Resolve(id0)
		rt.Assert(lerr == nil, "bug-loaded-before-the-pull")
		if lerr == nil {
			_, _, serr := lb.AddComment("staged, not committed")
			rt.Assert(serr == nil, "edit-staged-before-the-pull")
		}
		h := dag.VHStoreCommit(w.r, bug.VHFormatVersion, []repository.Hash{h0}, w.tick(), 0,
			[]dag.Operation{bug.VHSetTitleOp(w.bob, vhOpId(103), "renamed-remotely", "t0")}, w.bob)
		w.r.SetRef("refs/remotes/origin/bugs/"+id0.String(), h)
		rt.Cover("fast-forward-over-staged-edit")
	case 0: // a bug that only exists on the remote
		id1, h1 := w.storeBug(1, w.bob, "t1", 1)
		w.r.SetRef("refs/remotes/origin/bugs/"+id1.String(), h1)
		rt.Cover("new-bug")
	case 1: // remote ahead of the local bug
		h := dag.VHStoreCommit(w.r, bug.VHFormatVersion, []repository.Hash{h0}, w.tick(), 0,
			[]dag.Operation{bug.VHSetTitleOp(w.bob, vhOpId(100), "renamed", "t0")}, w.bob)
		w.r.SetRef("refs/remotes/origin/bugs/"+id0.String(), h)
		rt.Cover("fast-forward")
	case 2: // diverged: local comment, remote title change
		hl := dag.VHStoreCommit(w.r, bug.VHFormatVersion, []repository.Hash{h0}, w.tick(), 0,
			[]dag.Operation{bug.VHAddCommentOp(w.alice, vhOpId(101), "local")}, w.alice)
		w.r.SetRef("refs/bugs/"+id0.String(), hl)
		hr := dag.VHStoreCommit(w.r, bug.VHFormatVersion, []repository.Hash{h0}, w.tick(), 0,
			[]dag.Operation{bug.VHSetTitleOp(w.bob, vhOpId(102), "remote-title", "t0")}, w.bob)
		w.r.SetRef("refs/remotes/origin/bugs/"+id0.String(), hr)
		w.syncClocks()
		// the local edit happened through another cache session: rebuild the live cache
		_ = c.Close()
		c, err = NewRepoCacheNoEvents(w.r)
		rt.Assume(err == nil)
		rt.Cover("diverged")
	case 3: // a new identity
		identity.VHStoreIdentity(w.r, "carol", 1, false, "origin")
		rt.Cover("new-identity")
	case 4: // a new version of bob, who wrote a bug that is loaded in this cache
		_, lerr := c.Bugs().Resolve(idb)
		rt.Assert(lerr == nil, "bug-of-the-updated-identity-loaded")
		h := identity.VHAppendVersion(w.r, w.bob, "robert")
		w.r.SetRef(identity.VHRemoteRef("origin", w.bob.Id()), h)
		rt.Cover("identity-updated")
	}
	w.syncClocks()
	results := vhDrain(c.MergeAll("origin"))
	for _, res := range results {
		rt.Assert(res.Err == nil && res.Status != entity.MergeStatusInvalid, "valid-remote-merges")
	}
	vhCoherent(c, w, "-after-merge")
	if scenario == 4 {
		ex, err := c.Identities().ResolveExcerpt(w.bob.Id())
		rt.Assert(err == nil && ex.Name == "robert", "updated-identity-visible")
	}
	if scenario <= 2 {
		// later edits made through the cache build on the merged history
		b, err := c.Bugs().Resolve(id0)
		if scenario == 0 {
			b, err = c.Bugs().Resolve(vhBugId(1))
		}
		rt.Assert(err == nil, "merged-bug-resolves")
		if err == nil {
			before := len(b.Snapshot().Operations)
			_, _, cerr := b.AddComment("after-merge")
			rt.Assert(cerr == nil, "edit-after-merge")
			rt.Assert(b.Commit() == nil, "commit-after-merge")
			vhCoherent(c, w, "-after-edit")
			rb := vhRebuild(w)
			rbb, rerr := rb.Bugs().Resolve(b.Id())
			rt.Assert(rerr == nil && len(rbb.Snapshot().Operations) == before+1, "edit-builds-on-merged-history")
		}
	}
	// what the pull brought survives a close and reopen (the cache file was rewritten)
	rt.Assert(c.Close() == nil, "close-after-merge")
	c3, err := NewRepoCacheNoEvents(w.r)
	rt.Assert(err == nil, "reopen-after-merge")
	if err == nil {
		vhCoherent(c3, w, "-after-merge-and-reopen")
	}
	rt.Observe("scenario", scenario)
}

// VH_C11_edit: edits through the cache API keep the cache coherent.
func VH_C11_edit() {
	w := vhNewWorld()
	id0, h0 := w.storeBug(0, w.alice, "t0", rt.Choose(2))
	w.r.SetRef("refs/bugs/"+id0.String(), h0)
	w.syncClocks()
	c, err := NewRepoCacheNoEvents(w.r)
	rt.Assert(err == nil, "cache-builds")
	if err != nil {
		return
	}
	var b *BugCache
	if rt.Choose(2) == 0 {
		b, err = c.Bugs().Resolve(id0)
		rt.Assert(err == nil, "bug-resolves")
	} else {
		b, _, err = c.Bugs().New("fresh", "message")
		rt.Assert(err == nil, "new-bug-created")
		rt.Cover("new-bug")
	}
	if err != nil {
		return
	}
	n := 1 + rt.Choose(2)
	for k := 0; k < n; k++ {
		switch rt.Choose(5) {
		case 4:
			target := b.Snapshot().Operations[0]
			want, had := target.AllMetadata()["k"]
			if !had {
				want = fmt.Sprintf("v%d", k)
			}
			_, err = b.SetMetadata(target.Id(), map[string]string{"k": fmt.Sprintf("v%d", k)})
			// the snapshot maintained incrementally shows what a compilation from scratch
			// would: the key is there, and a key that existed keeps its value. Looked at
			// before anything recompiles the bug (a rebuild shares the operation objects
			// of M-PACK and would repair the live snapshot).
			got, has := b.Snapshot().Operations[0].AllMetadata()["k"]
			rt.Assert(err != nil || (has && got == want), "set-metadata-visible-in-the-live-snapshot")
			rt.Cover("set-metadata")
		case 0:
			_, _, err = b.AddComment("c")
		case 1:
			_, err = b.SetTitle(fmt.Sprintf("title-%d", k))
		case 2:
			_, err = b.Close()
		default:
			_, _, err = b.ChangeLabels([]string{"l1"}, nil)
			if err != nil {
				err = nil // label already set: not an edit
			}
		}
		rt.Assert(err == nil, "edit-accepted")
	}
	rt.Assert(b.CommitAsNeeded() == nil, "commit")
	vhCoherent(c, w, "-after-edit")
	rt.Cover("edited")
}

// VH_C11_remove_evict: removal and eviction under a small cache size keep coherence; a
// removed bug stays gone after rebuild and after a merge without fetch.
func VH_C11_remove_evict() {
	w := vhNewWorld()
	w.r.Remotes["origin"] = "url"
	var ids []entity.Id
	for n := 0; n < 3; n++ {
		id, h := w.storeBug(n, w.alice, fmt.Sprintf("t%d", n), 0)
		w.r.SetRef("refs/bugs/"+id.String(), h)
		if n == 0 {
			w.r.SetRef("refs/remotes/origin/bugs/"+id.String(), h)
		}
		ids = append(ids, id)
	}
	w.syncClocks()
	c, err := NewRepoCacheNoEvents(w.r)
	rt.Assert(err == nil, "cache-builds")
	if err != nil {
		return
	}
	if rt.Choose(2) == 0 {
		// reopen so that entities are loaded on demand (and tracked by the LRU), then
		// resolve each of them under a cache size of one
		rt.Assert(c.Close() == nil, "close")
		c, err = NewRepoCacheNoEvents(w.r)
		rt.Assert(err == nil, "reopen")
		if err != nil {
			return
		}
		c.setCacheSize(1)
		for _, id := range ids {
			_, err := c.Bugs().Resolve(id)
			rt.Assert(err == nil, "resolve-under-pressure")
		}
		rt.Assert(len(c.Bugs().cached) <= 2, "eviction-happened")
		vhCoherent(c, w, "-after-eviction")
		// an entity with uncommitted operations is never evicted
		b, err := c.Bugs().Resolve(ids[0])
		rt.Assert(err == nil, "resolve-for-edit")
		if err == nil {
			_, _, err = b.AddComment("pending")
			rt.Assert(err == nil, "pending-edit")
			for _, id := range ids[1:] {
				_, _ = c.Bugs().Resolve(id)
			}
			_, still := c.Bugs().cached[ids[0]]
			rt.Assert(still, "entity-with-pending-operations-not-evicted")
			rt.Assert(b.Commit() == nil, "commit-pending")
		}
		vhCoherent(c, w, "-after-pending-commit")
		rt.Cover("evicted")
	}
	victim := ids[rt.Choose(len(ids))]
	rt.Assert(c.Bugs().Remove(victim.String()) == nil, "remove")
	_, rerr := c.Bugs().ResolveExcerpt(victim)
	rt.Assert(rerr != nil, "removed-bug-not-found")
	_, perr := c.Bugs().ResolvePrefix(victim.String()[:10])
	rt.Assert(perr != nil, "removed-bug-not-found-by-prefix")
	vhCoherent(c, w, "-after-remove")
	// a merge without a new fetch does not bring it back
	vhDrain(c.MergeAll("origin"))
	_, rerr = c.Bugs().ResolveExcerpt(victim)
	rt.Assert(rerr != nil, "removed-bug-stays-gone-after-merge")
	vhCoherent(c, w, "-after-merge")
	// nor does a close and reopen, nor a rebuild from the git data
	rt.Assert(c.Close() == nil, "close-after-remove")
	c4, err := NewRepoCacheNoEvents(w.r)
	rt.Assert(err == nil, "reopen-after-remove")
	if err == nil {
		_, rerr = c4.Bugs().ResolveExcerpt(victim)
		rt.Assert(rerr != nil, "removed-bug-stays-gone-after-reopen")
		ix, _ := w.r.GetIndex("bugs")
		_, indexed := ix.(*vrepo.Index).Docs[victim.String()]
		rt.Assert(!indexed, "removed-bug-not-searchable")
		vhCoherent(c4, w, "-after-reopen")
	}
	rb := vhRebuild(w)
	_, rerr = rb.Bugs().ResolveExcerpt(victim)
	rt.Assert(rerr != nil, "removed-bug-stays-gone-after-rebuild")
	rt.Cover("removed")
}

// ---- exported fixture for harnesses of other packages (api) ----

type VHFixture struct {
	Repo  *vrepo.Repo
	Alice entity.Id
	Bob   entity.Id
	Bug   entity.Id
	w     *vhWorld
}

// VHNewFixture: a model repository with the identities alice and bob and one bug
// (create + one comment) by bob; clocks in sync.
func VHNewFixture() *VHFixture { return VHNewFixtureN(2) }

// VHNewFixtureN: with n == 1 the repository holds a single identity (alice, who also
// wrote the bug).
func VHNewFixtureN(n int) *VHFixture {
	if n == 1 {
		dag.VHResetPacks()
		identity.VHReset()
		w := &vhWorld{r: vrepo.New()}
		w.alice = identity.VHStoreIdentity(w.r, "alice", 1, true, "")
		w.bob = w.alice
		_ = w.r.LocalConfig().StoreString("git-bug.identity", w.alice.Id().String())
		id, h := w.storeBug(0, w.alice, "t0", 1)
		w.r.SetRef("refs/bugs/"+id.String(), h)
		w.syncClocks()
		return &VHFixture{Repo: w.r, Alice: w.alice.Id(), Bob: w.alice.Id(), Bug: id, w: w}
	}
	w := vhNewWorld()
	id, h := w.storeBug(0, w.bob, "t0", 1)
	w.r.SetRef("refs/bugs/"+id.String(), h)
	w.syncClocks()
	return &VHFixture{Repo: w.r, Alice: w.alice.Id(), Bob: w.bob.Id(), Bug: id, w: w}
}

// VHRebuild builds a fresh cache from the fixture's git data.
func (f *VHFixture) VHRebuild() *RepoCache { return vhRebuild(f.w) }

// VHNewWipeFixture: alice, bob and one bug per element of kinds: 0 local only, 1 local and
// held by remote origin, 2 fetched from origin but never merged (tracking ref only). Bob
// is also held by the remote. Remote "origin" is configured.
func VHNewWipeFixture(kinds []int) *VHFixture {
	w := vhNewWorld()
	w.r.Remotes["origin"] = "/somewhere"
	for i, k := range kinds {
		id, h := w.storeBug(i, w.bob, fmt.Sprintf("t%d", i), i%2)
		if k != 2 {
			w.r.SetRef("refs/bugs/"+id.String(), h)
		}
		if k != 0 {
			w.r.SetRef("refs/remotes/origin/bugs/"+id.String(), h)
		}
	}
	bh, _ := w.r.ResolveRef("refs/identities/" + w.bob.Id().String())
	w.r.SetRef("refs/remotes/origin/identities/"+w.bob.Id().String(), bh)
	w.syncClocks()
	return &VHFixture{Repo: w.r, Alice: w.alice.Id(), Bob: w.bob.Id(), w: w}
}

// VHNewPagingFixture: alice, bob and n local bugs by bob, the first of which has extra
// comments after its creation.
func VHNewPagingFixture(n, extra int) *VHFixture {
	w := vhNewWorld()
	for i := 0; i < n; i++ {
		e := 0
		if i == 0 {
			e = extra
		}
		id, h := w.storeBug(i, w.bob, fmt.Sprintf("t%d", i), e)
		w.r.SetRef("refs/bugs/"+id.String(), h)
	}
	w.syncClocks()
	return &VHFixture{Repo: w.r, Alice: w.alice.Id(), Bob: w.bob.Id(), w: w}
}

// VH_C11_session: K arbitrary cache operations in a row (edit, new bug, pull-merge, remove,
// close/reopen, new identity), the cache compared with a rebuild after every one of them.
func VH_C11_session() {
	w := vhNewWorld()
	w.r.Remotes["origin"] = "url"
	id0, h0 := w.storeBug(0, w.alice, "t0", 1)
	w.r.SetRef("refs/bugs/"+id0.String(), h0)
	id1, h1 := w.storeBug(1, w.bob, "t1", 0)
	h1 = dag.VHStoreCommit(w.r, bug.VHFormatVersion, []repository.Hash{h1}, w.tick(), 0,
		[]dag.Operation{bug.VHLabelOp(w.bob, vhOpId(201), "local-label")}, w.bob)
	w.r.SetRef("refs/bugs/"+id1.String(), h1)
	// what an earlier fetch brought: bug 0 is ahead on the remote (a new title and a label
	// nobody here has seen), bug 2 is new there
	hr := dag.VHStoreCommit(w.r, bug.VHFormatVersion, []repository.Hash{h0}, w.tick(), 0,
		[]dag.Operation{bug.VHSetTitleOp(w.bob, vhOpId(200), "remote-title", "t0"), bug.VHLabelOp(w.bob, vhOpId(202), "remote-label")}, w.bob)
	w.r.SetRef("refs/remotes/origin/bugs/"+id0.String(), hr)
	id2, h2 := w.storeBug(2, w.bob, "t2", 1)
	w.r.SetRef("refs/remotes/origin/bugs/"+id2.String(), h2)
	w.syncClocks()
	c, err := NewRepoCacheNoEvents(w.r)
	rt.Assert(err == nil, "cache-builds")
	if err != nil {
		return
	}
	steps := rt.Param("K", 2)
	removed := false
	for s := 0; s < steps; s++ {
		tag := fmt.Sprintf("-step%d", s)
		switch rt.Choose(7) {
		case 6:
			// bob renames himself through the cache API
			ic, err := c.Identities().Resolve(w.bob.Id())
			rt.Assert(err == nil, "identity-resolves"+tag)
			if err == nil {
				name := fmt.Sprintf("bob%d", s)
				rt.Assert(ic.Mutate(w.r, func(m *identity.Mutator) { m.Name = name }) == nil, "identity-mutates"+tag)
				rt.Assert(ic.Commit() == nil, "identity-commits"+tag)
				ex, eerr := c.Identities().ResolveExcerpt(w.bob.Id())
				rt.Assert(eerr == nil && ex.Name == name, "identity-edit-visible"+tag)
			}
			rt.Cover("edit-identity")
		case 0:
			b, err := c.Bugs().Resolve(id1)
			rt.Assert(err == nil, "bug-resolves"+tag)
			if err == nil {
				_, _, err = b.AddComment(fmt.Sprintf("c%d", s))
				rt.Assert(err == nil && b.Commit() == nil, "edit-committed"+tag)
			}
			rt.Cover("edit")
		case 1:
			_, _, err := c.Bugs().New(fmt.Sprintf("new%d", s), "message")
			rt.Assert(err == nil, "new-bug"+tag)
			rt.Cover("new-bug")
		case 2:
			if rt.Choose(2) == 0 {
				for _, res := range vhDrain(c.MergeAll("origin")) {
					rt.Assert(res.Err == nil && res.Status != entity.MergeStatusInvalid, "valid-remote-merges"+tag)
				}
			} else {
				// a pull whose fetch brings nothing new (the refs were fetched before,
				// without being merged): what is there must still be merged
				w.r.FetchOut = "already up-to-date"
				rt.Assert(c.Pull("origin") == nil, "pull"+tag)
				rt.Assert(w.r.Fetches > 0, "pull-fetches"+tag)
				_, perr := c.Bugs().ResolveExcerpt(id2)
				rt.Assert(perr == nil, "pull-merges-what-was-fetched-before"+tag)
				rt.Cover("pull")
			}
			rt.Cover("merge")
		case 3:
			if !removed {
				rt.Assert(c.Bugs().Remove(id0.String()) == nil, "remove"+tag)
				removed = true
				rt.Cover("remove")
			}
		case 4:
			rt.Assert(c.Close() == nil, "close"+tag)
			c, err = NewRepoCacheNoEvents(w.r)
			rt.Assert(err == nil, "reopen"+tag)
			if err != nil {
				return
			}
			rt.Cover("reopen")
		default:
			_, err := c.Identities().New(fmt.Sprintf("user%d", s), "u@example.org")
			rt.Assert(err == nil, "new-identity"+tag)
			rt.Cover("new-identity")
		}
		vhCoherent(c, w, tag)
		if removed {
			_, rerr := c.Bugs().ResolveExcerpt(id0)
			rt.Assert(rerr != nil, "removed-bug-stays-gone"+tag)
		}
	}
	rt.Observe("steps", steps)
}

// VH_C14_removeall: RepoCache.RemoveAll on a cache whose entities were loaded on demand
// (and are tracked by the LRU): afterwards nothing is found, and the same cache instance
// keeps working — new bugs can be created and resolved under memory pressure, and the cache
// agrees with a rebuild.
func VH_C14_removeall() {
	w := vhNewWorld()
	var ids []entity.Id
	for n := 0; n < 3; n++ {
		id, h := w.storeBug(n, w.alice, fmt.Sprintf("t%d", n), 0)
		w.r.SetRef("refs/bugs/"+id.String(), h)
		ids = append(ids, id)
	}
	w.syncClocks()
	c, err := NewRepoCacheNoEvents(w.r)
	rt.Assume(err == nil)
	if rt.Choose(2) == 1 {
		// reopen: entities are then loaded on demand and tracked by the LRU
		rt.Assume(c.Close() == nil)
		c, err = NewRepoCacheNoEvents(w.r)
		rt.Assume(err == nil)
		for _, id := range ids {
			_, rerr := c.Bugs().Resolve(id)
			rt.Assert(rerr == nil, "resolve-before-removal")
		}
		rt.Cover("loaded-on-demand")
	}
	rt.Assert(c.Bugs().RemoveAll() == nil, "remove-all")
	rt.Assert(len(c.Bugs().AllIds()) == 0, "nothing-listed-after-remove-all")
	for _, id := range ids {
		_, rerr := c.Bugs().ResolveExcerpt(id)
		rt.Assert(rerr != nil, "removed-bug-not-found")
	}
	refs, _ := w.r.ListRefs("refs/bugs/")
	rt.Assert(len(refs) == 0, "no-bug-ref-left")
	// the cache goes on being used
	c.setCacheSize(1)
	panicked, _ := rt.Try(func() {
		for k := 0; k < 3; k++ {
			b, _, nerr := c.Bugs().New(fmt.Sprintf("after%d", k), "m")
			rt.Assert(nerr == nil, "new-bug-after-remove-all")
			if nerr == nil {
				_, rerr := c.Bugs().Resolve(b.Id())
				rt.Assert(rerr == nil, "new-bug-resolves-after-remove-all")
			}
		}
	})
	rt.Assert(!panicked, "cache-usable-after-remove-all")
	if !panicked {
		rt.Assert(len(c.Bugs().AllIds()) == 3, "exactly-the-new-bugs-listed")
		vhCoherent(c, w, "-after-remove-all")
	}
	rt.Cover("removed-all")
}
