package cache

import (
	"fmt"
	"os"
	"strconv"

	"github.com/MichaelMure/git-bug/util/process"
	"github.com/MichaelMure/git-bug/zzverif/rt"
	"github.com/MichaelMure/git-bug/zzverif/vrepo"
)

// VH_C19_avail: repoIsAvailable on an arbitrary lock file content.
func VH_C19_avail() {
	r := vrepo.New()
	hasLock := rt.Choose(2) == 1
	var content string
	if hasLock {
		content = rt.NondetString(rt.Param("L", 10))
		r.FS.Files[lockfile] = []byte(content)
	}
	alive := rt.NondetBool()
	asked := -1
	calls := 0
	process.VHIsRunning = func(pid int) bool { asked = pid; calls++; return alive }
	defer func() { process.VHIsRunning = nil }()
	events := make(chan BuildEvent, 4)
	r.FS.Log = nil
	var err error
	panicked, _ := rt.Try(func() { err = repoIsAvailable(r, events) })
	rt.Assert(!panicked, "lock-check-no-panic")
	if panicked {
		return
	}
	_, still := r.FS.Files[lockfile]
	if !hasLock {
		rt.Cover("no-lock")
		rt.Assert(err == nil && len(r.FS.Log) == 0, "free-repo-available-and-untouched")
		return
	}
	// reference reading of the lock: a decimal pid of fewer than 10 bytes
	pid, perr := strconv.Atoi(content)
	parses := perr == nil && len(content) < 10
	switch {
	case !parses:
		rt.Cover("garbage-lock")
		rt.Assert(err != nil, "unreadable-lock-refused")
		rt.Assert(still && len(r.FS.Log) == 0, "unreadable-lock-untouched")
	case alive:
		rt.Cover("holder-alive")
		rt.Assert(calls == 1 && asked == pid, "liveness-of-the-recorded-pid-asked")
		rt.Assert(err != nil, "live-holder-refused")
		rt.Assert(still && len(r.FS.Log) == 0, "live-holder-lock-never-removed")
	default:
		rt.Cover("holder-dead")
		rt.Assert(calls == 1 && asked == pid, "liveness-of-the-recorded-pid-asked")
		rt.Assert(err == nil, "stale-lock-cleaned")
		rt.Assert(!still, "stale-lock-removed")
		rt.Assert(len(events) == 1, "cleanup-announced")
	}
}

// VH_C19_cycle: lock / second open refused / close / next open succeeds.
func VH_C19_cycle() {
	r := vrepo.New()
	c := &RepoCache{repo: r, name: "default"}
	events := make(chan BuildEvent, 4)
	// a stale lock of a dead process may be lying around
	if rt.Choose(2) == 1 {
		r.FS.Files[lockfile] = []byte("77")
		rt.Cover("stale-lock-before")
	}
	holderAlive := true
	process.VHIsRunning = func(pid int) bool {
		if pid == os.Getpid() {
			return holderAlive
		}
		return false
	}
	defer func() { process.VHIsRunning = nil }()
	rt.Assert(c.lock(events) == nil, "first-open-locks")
	buf, ok := r.FS.Files[lockfile]
	me := fmt.Sprintf("%d", os.Getpid())
	rt.Assert(ok && string(buf) == me, "lock-names-the-holder")
	// a second process tries while the holder lives
	before := len(r.FS.Log)
	rt.Assert(repoIsAvailable(r, events) != nil, "second-open-refused")
	rt.Assert(len(r.FS.Log) == before, "refused-open-changes-nothing")
	c2 := &RepoCache{repo: r, name: "default"}
	rt.Assert(c2.lock(events) != nil, "second-lock-refused")
	buf2 := r.FS.Files[lockfile]
	rt.Assert(string(buf2) == me, "lock-still-names-the-first-holder")
	// how the holder goes away
	if rt.Choose(2) == 0 {
		// while the holder is still closing its repository the lock must still be there
		lockedWhileClosing := false
		r.OnClose = func() { _, lockedWhileClosing = r.FS.Files[lockfile] }
		rt.Assert(c.Close() == nil, "clean-close")
		rt.Assert(lockedWhileClosing, "lock-released-only-after-the-repository-is-closed")
		_, still := r.FS.Files[lockfile]
		rt.Assert(!still, "close-releases-the-lock")
		rt.Cover("closed")
	} else {
		holderAlive = false // killed, lock left behind
		rt.Cover("killed")
	}
	c3 := &RepoCache{repo: r, name: "default"}
	rt.Assert(c3.lock(events) == nil, "next-open-succeeds")
	_, has := r.FS.Files[lockfile]
	rt.Assert(has, "new-holder-holds-the-lock")
}

// VH_C19_crash: the holder is killed at an arbitrary storage step while it takes the
// lock (or right after); whatever it leaves behind, the next open succeeds once it is dead
// and the new holder's lock names the new holder.
func VH_C19_crash() {
	r := vrepo.New()
	if rt.Choose(2) == 1 {
		r.FS.Files[lockfile] = []byte("77") // a stale lock of an earlier dead process
		rt.Cover("stale-lock-before")
	}
	process.VHIsRunning = func(pid int) bool { return false } // every earlier holder is dead
	defer func() { process.VHIsRunning = nil }()
	events := make(chan BuildEvent, 8)
	c := &RepoCache{repo: r, name: "default"}
	k := rt.Choose(rt.Param("K", 6))
	r.FS.CrashAfter = r.FS.Mutations + k
	crashed, _ := rt.Try(func() { _ = c.lock(events) })
	r.FS.CrashAfter = -1
	if crashed {
		rt.Cover("killed-while-locking")
	} else {
		rt.Cover("killed-after-locking")
	}
	// the process is gone; somebody else opens the repository
	c2 := &RepoCache{repo: r, name: "default"}
	err := c2.lock(events)
	rt.Assert(err == nil, "next-open-succeeds-after-the-holder-died")
	buf, ok := r.FS.Files[lockfile]
	rt.Assert(ok && string(buf) == fmt.Sprintf("%d", os.Getpid()), "new-lock-names-the-new-holder")
	rt.Observe("k", k)
}
