package cache

import (
	"github.com/MichaelMure/git-bug/entities/bug"
	"github.com/MichaelMure/git-bug/entities/common"
	"github.com/MichaelMure/git-bug/entity"
	"github.com/MichaelMure/git-bug/query"
	"github.com/MichaelMure/git-bug/util/lamport"
	"github.com/MichaelMure/git-bug/zzverif/rt"
)

// VH_C12_groups: Matcher.Match is the conjunction over qualifier kinds of any-of
// (status, author, metadata, participant, actor) and all-of (label, no, title) groups,
// for every outcome of the individual filters.
func VH_C12_groups() {
	mk := func(n int) ([]Filter, []bool) {
		var fs []Filter
		var vs []bool
		for i := 0; i < n; i++ {
			v := rt.NondetBool()
			vs = append(vs, v)
			fs = append(fs, func(*BugExcerpt, entity.Resolvers) bool { return v })
		}
		return fs, vs
	}
	anyOf := func(vs []bool) bool {
		if len(vs) == 0 {
			return true
		}
		r := false
		for _, v := range vs {
			r = rt.Or(r, v)
		}
		return r
	}
	allOf := func(vs []bool) bool {
		r := true
		for _, v := range vs {
			r = rt.And(r, v)
		}
		return r
	}
	max := rt.Param("G", 2)
	m := &Matcher{}
	want := true
	var vs []bool
	m.Status, vs = mk(rt.Choose(max + 1))
	want = rt.And(want, anyOf(vs))
	m.Author, vs = mk(rt.Choose(max + 1))
	want = rt.And(want, anyOf(vs))
	m.Metadata, vs = mk(rt.Choose(max + 1))
	want = rt.And(want, anyOf(vs))
	m.Participant, vs = mk(rt.Choose(max + 1))
	want = rt.And(want, anyOf(vs))
	m.Actor, vs = mk(rt.Choose(max + 1))
	want = rt.And(want, anyOf(vs))
	m.Label, vs = mk(rt.Choose(max + 1))
	want = rt.And(want, allOf(vs))
	m.NoFilters, vs = mk(rt.Choose(2))
	want = rt.And(want, allOf(vs))
	m.Title, vs = mk(rt.Choose(max + 1))
	want = rt.And(want, allOf(vs))
	got := m.Match(&BugExcerpt{}, nil)
	rt.Assert(got == want, "match-is-conjunction-of-groups")
	if got {
		rt.Cover("matched")
	} else {
		rt.Cover("rejected")
	}
}

func vhLower(b byte) byte {
	return byte(rt.Ite(rt.And(b >= 'A', b <= 'Z'), int(b)+32, int(b)))
}

// vhContainsFold: reference case-insensitive (ASCII) substring test without forking on
// bytes (lengths are concrete).
func vhContainsFold(s, sub string) bool {
	if len(sub) == 0 {
		return true
	}
	r := false
	for i := 0; i+len(sub) <= len(s); i++ {
		m := true
		for j := 0; j < len(sub); j++ {
			m = rt.And(m, vhLower(s[i+j]) == vhLower(sub[j]))
		}
		r = rt.Or(r, m)
	}
	return r
}

func vhPrefixFold(s, p string) bool {
	if len(p) > len(s) {
		return false
	}
	m := true
	for j := 0; j < len(p); j++ {
		m = rt.And(m, s[j] == vhLower(p[j]))
	}
	return m
}

func vhASCII(s string) {
	for i := 0; i < len(s); i++ {
		rt.Assume(s[i] < 0x80)
	}
}

func vhIdentity(n int, sl int) *IdentityExcerpt {
	id := vhIdSym(2, 20+n)
	name := rt.NondetStringN(sl)
	login := rt.NondetStringN(1)
	vhASCII(name)
	vhASCII(login)
	return &IdentityExcerpt{id: id, Name: name, Login: login}
}

// refIdentityMatch: documented meaning of author/actor/participant matching.
func refIdentityMatch(i *IdentityExcerpt, q string) bool {
	return rt.Or(vhPrefixFold(string(i.id), q), rt.Or(vhContainsFold(i.Name, q), vhContainsFold(i.Login, q)))
}

// VH_C12_match: each qualifier kind, compiled from query.Filters by the real
// compileMatcher and evaluated by the real Match on a symbolic excerpt, means what
// doc/queries.md says.
func VH_C12_match() {
	sl := rt.Param("SL", 2)
	kind := rt.Choose(8)
	var ids []*IdentityExcerpt
	var resolvers entity.Resolvers
	if kind >= 1 && kind <= 3 {
		ids = []*IdentityExcerpt{vhIdentity(0, sl), vhIdentity(1, sl)}
		rt.Assume(ids[0].id != ids[1].id)
		resolvers = entity.Resolvers{
			&IdentityExcerpt{}: entity.MakeResolver(ids[0], ids[1]),
		}
	}
	ex := &BugExcerpt{id: vhIdSym(0, 1)}
	f := query.Filters{}
	var want bool
	nf := 1 + rt.Choose(2)
	qs := make([]string, nf)
	for i := range qs {
		qs[i] = rt.NondetString(sl)
		vhASCII(qs[i])
	}
	switch kind {
	case 0: // status: any-of
		ex.Status = common.Status(1 + rt.Choose(2))
		want = false
		for i := 0; i < nf; i++ {
			st := common.Status(1 + rt.Choose(2))
			f.Status = append(f.Status, st)
			want = want || st == ex.Status
		}
		rt.Cover("status")
	case 1: // author: any-of
		ex.AuthorId = ids[rt.Choose(2)].id
		f.Author = qs
		want = false
		for _, q := range qs {
			a := ids[0]
			if ex.AuthorId == ids[1].id {
				a = ids[1]
			}
			want = rt.Or(want, refIdentityMatch(a, q))
		}
		rt.Cover("author")
	case 2: // actor: any-of over filters, any actor
		na := rt.Choose(3)
		for k := 0; k < na; k++ {
			ex.Actors = append(ex.Actors, ids[k].id)
		}
		f.Actor = qs
		want = false
		for _, q := range qs {
			for k := 0; k < na; k++ {
				want = rt.Or(want, refIdentityMatch(ids[k], q))
			}
		}
		rt.Cover("actor")
	case 3: // participant
		na := rt.Choose(3)
		for k := 0; k < na; k++ {
			ex.Participants = append(ex.Participants, ids[k].id)
		}
		f.Participant = qs
		want = false
		for _, q := range qs {
			for k := 0; k < na; k++ {
				want = rt.Or(want, refIdentityMatch(ids[k], q))
			}
		}
		rt.Cover("participant")
	case 4: // label: all-of, exact
		nl := rt.Choose(3)
		for k := 0; k < nl; k++ {
			ex.Labels = append(ex.Labels, bug.Label(rt.NondetString(sl)))
		}
		f.Label = qs
		want = true
		for _, q := range qs {
			has := false
			for _, l := range ex.Labels {
				has = rt.Or(has, string(l) == q)
			}
			want = rt.And(want, has)
		}
		rt.Cover("label")
	case 5: // title: all-of, case-insensitive containment
		ex.Title = rt.NondetString(sl + 1)
		vhASCII(ex.Title)
		f.Title = qs
		want = true
		for _, q := range qs {
			want = rt.And(want, vhContainsFold(ex.Title, q))
		}
		rt.Cover("title")
	case 6: // no:label
		nl := rt.Choose(2)
		for k := 0; k < nl; k++ {
			ex.Labels = append(ex.Labels, bug.Label("x"))
		}
		f.NoLabel = true
		want = nl == 0
		rt.Cover("nolabel")
	case 7: // metadata: any-of, exact key and value
		ex.CreateMetadata = map[string]string{}
		nm := rt.Choose(2)
		var mk, mv string
		if nm == 1 {
			mk, mv = rt.NondetString(1), rt.NondetString(1)
			ex.CreateMetadata[mk] = mv
		}
		want = false
		for i := 0; i < nf; i++ {
			k, v := rt.NondetString(1), rt.NondetString(1)
			f.Metadata = append(f.Metadata, query.StringPair{Key: k, Value: v})
			if nm == 1 {
				want = rt.Or(want, rt.And(k == mk, v == mv))
			}
		}
		rt.Cover("metadata")
	}
	var got bool
	panicked, _ := rt.Try(func() { got = compileMatcher(f).Match(ex, resolvers) })
	rt.Assert(!panicked, "match-no-panic")
	rt.Assert(got == want, "match-means-documented")
	rt.Observe("kind", kind)
	rt.Observe("got", got)
}

func vhExcerptTimes(n int) *BugExcerpt {
	return &BugExcerpt{
		id:                vhIdSym(2, n),
		CreateLamportTime: lamport.Time(rt.NondetUint64()),
		EditLamportTime:   lamport.Time(rt.NondetUint64()),
		CreateUnixTime:    rt.NondetInt64(),
		EditUnixTime:      rt.NondetInt64(),
		Status:            common.Status(1 + rt.Choose(2)),
	}
}

// VH_C12_sorters: the three orderings are strict weak orders.
func VH_C12_sorters() {
	es := []*BugExcerpt{vhExcerptTimes(0), vhExcerptTimes(1), vhExcerptTimes(2)}
	var less func(i, j int) bool
	switch rt.Choose(3) {
	case 0:
		less = BugsById(es).Less
	case 1:
		less = BugsByCreationTime(es).Less
	default:
		less = BugsByEditTime(es).Less
	}
	ab, ba := less(0, 1), less(1, 0)
	bc, cb := less(1, 2), less(2, 1)
	ac, ca := less(0, 2), less(2, 0)
	rt.Assert(!less(0, 0), "irreflexive")
	rt.Assert(!(ab && ba), "asymmetric")
	if ab && bc {
		rt.Assert(ac, "transitive")
	}
	// transitivity of incomparability
	if !ab && !ba && !bc && !cb {
		rt.Assert(!ac && !ca, "incomparability-transitive")
	}
	rt.Cover("checked")
}

// VH_C12_query: Query returns each matching bug exactly once, ordered by the requested
// key and direction.
func VH_C12_query() {
	nb := rt.Choose(rt.Param("NB", 3) + 1)
	rcb := &RepoCacheBug{SubCache: NewSubCache[*bug.Bug, *BugExcerpt, *BugCache](nil, func() entity.Resolvers { return nil }, nil, nil, nil, nil, Actions[*bug.Bug]{}, "bug", "bugs", 1, 10)}
	var es []*BugExcerpt
	for i := 0; i < nb; i++ {
		e := vhExcerptTimes(i)
		for _, o := range es {
			rt.Assume(o.id != e.id)
		}
		es = append(es, e)
		rcb.excerpts[e.id] = e
	}
	q := query.NewQuery()
	q.OrderBy = query.OrderBy(1 + rt.Choose(3))
	q.OrderDirection = query.OrderDirection(1 + rt.Choose(2))
	filterStatus := rt.Choose(2) == 1
	var st common.Status
	if filterStatus {
		st = common.Status(1 + rt.Choose(2))
		q.Status = []common.Status{st}
	}
	res, err := rcb.Query(q)
	rt.Assert(err == nil, "query-no-error")
	nwant := 0
	for _, e := range es {
		matches := !filterStatus || e.Status == st
		cnt := 0
		for _, r := range res {
			if r == e.id {
				cnt++
			}
		}
		if matches {
			nwant++
			rt.Assert(cnt == 1, "matching-bug-exactly-once")
		} else {
			rt.Assert(cnt == 0, "non-matching-bug-absent")
		}
	}
	rt.Assert(len(res) == nwant, "result-size")
	// adjacent results are in the requested order
	find := func(id entity.Id) *BugExcerpt { return rcb.excerpts[id] }
	for i := 1; i < len(res); i++ {
		a, b := find(res[i-1]), find(res[i])
		if q.OrderDirection == query.OrderDescending {
			a, b = b, a
		}
		var ok bool
		switch q.OrderBy {
		case query.OrderById:
			ok = a.id <= b.id
		case query.OrderByCreation:
			ok = rt.Or(a.CreateLamportTime < b.CreateLamportTime, rt.And(a.CreateLamportTime == b.CreateLamportTime, a.CreateUnixTime <= b.CreateUnixTime))
		default:
			ok = rt.Or(a.EditLamportTime < b.EditLamportTime, rt.And(a.EditLamportTime == b.EditLamportTime, a.EditUnixTime <= b.EditUnixTime))
		}
		rt.Assert(ok, "results-ordered")
		rt.Cover("ordered-pair")
	}
	rt.Observe("n", len(res))
}
