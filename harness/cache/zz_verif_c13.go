package cache

import (
	"github.com/MichaelMure/git-bug/entities/bug"
	"github.com/MichaelMure/git-bug/entity"
	"github.com/MichaelMure/git-bug/zzverif/rt"
)

// vhIdSym returns an id whose first k bytes are symbolic (alphabet [0-9a-z]) and whose
// tail is the concrete, pairwise distinct filler for slot n.
func vhIdSym(k int, n int) entity.Id {
	b := make([]byte, 64)
	for i := range b {
		if i < k {
			c := rt.NondetByte()
			rt.Assume(rt.IdByte(c))
			b[i] = c
		} else {
			b[i] = "0123456789abcdefghijklmnopqrstuvwxyz"[(n*7+i)%36]
		}
	}
	return entity.Id(b)
}

func vhPrefix(maxLen int) string {
	p := rt.NondetString(maxLen)
	return p
}

func hasPrefix(s, p string) bool { return len(s) >= len(p) && s[:len(p)] == p }

// VH_C13_prefix: SubCache prefix resolution returns the single match, the exact
// matching set, or not-found.
func VH_C13_prefix() {
	k := rt.Param("K", 64)
	nb := 1 + rt.Choose(rt.Param("NB", 3))
	ids := make([]entity.Id, nb)
	sc := NewSubCache[*bug.Bug, *BugExcerpt, *BugCache](nil, nil, nil, nil, nil, nil, Actions[*bug.Bug]{}, "bug", "bugs", 1, 10)
	for i := range ids {
		ids[i] = vhIdSym(k, i)
		for j := 0; j < i; j++ {
			rt.Assume(ids[i] != ids[j])
		}
		sc.excerpts[ids[i]] = &BugExcerpt{id: ids[i]}
	}
	// prefix: a prefix of one of the ids, or an arbitrary string
	var prefix string
	if rt.Choose(2) == 0 {
		w := rt.Choose(nb)
		prefix = string(ids[w])[:rt.Choose(65)]
	} else {
		prefix = vhPrefix(rt.Param("PL", 3))
	}
	var want []entity.Id
	for _, id := range ids {
		if hasPrefix(string(id), prefix) {
			want = append(want, id)
		}
	}
	ex, err := sc.ResolveExcerptPrefix(prefix)
	id2, err2 := sc.resolveMatcher(func(e *BugExcerpt) bool { return e.Id().HasPrefix(prefix) })
	switch len(want) {
	case 0:
		rt.Cover("none")
		rt.Assert(entity.IsErrNotFound(err) && ex == nil, "none-not-found")
		rt.Assert(entity.IsErrNotFound(err2) && id2 == entity.UnsetId, "none-not-found-matcher")
	case 1:
		rt.Cover("one")
		rt.Assert(err == nil && ex != nil && ex.Id() == want[0], "one-resolves-it")
		rt.Assert(err2 == nil && id2 == want[0], "one-resolves-it-matcher")
	default:
		rt.Cover("many")
		mm, ok := err.(*entity.ErrMultipleMatch)
		rt.Assert(ok && ex == nil, "many-multiple-match")
		if ok {
			rt.Assert(len(mm.Matching) == len(want), "many-exact-count")
			for _, w := range want {
				found := false
				for _, m := range mm.Matching {
					if m == w {
						found = true
					}
				}
				rt.Assert(found, "many-lists-each-match")
			}
		}
	}
	rt.Observe("nwant", len(want))
}

// VH_C13_comment: a prefix of a comment's combined id resolves to that comment and its
// bug, or reports a multiple match when another combined id shares it.
func VH_C13_comment() {
	k := rt.Param("K", 3)
	nb := 1 + rt.Choose(2)
	rcb := &RepoCacheBug{SubCache: NewSubCache[*bug.Bug, *BugExcerpt, *BugCache](nil, nil, nil, nil, nil, nil, Actions[*bug.Bug]{}, "bug", "bugs", 1, 10)}
	type cm struct {
		bug int
		id  entity.CombinedId
	}
	var all []cm
	bugIds := make([]entity.Id, nb)
	for b := 0; b < nb; b++ {
		bugIds[b] = vhIdSym(k, b)
		for j := 0; j < b; j++ {
			rt.Assume(bugIds[b] != bugIds[j])
		}
		nc := 1 + rt.Choose(2)
		var comments []bug.Comment
		for c := 0; c < nc; c++ {
			opId := vhIdSym(k, 10+b*4+c)
			cid := entity.CombineIds(bugIds[b], opId)
			for _, o := range all {
				rt.Assume(o.id != cid)
			}
			all = append(all, cm{b, cid})
			comments = append(comments, bug.VHComment(cid, opId, "m"))
		}
		snap := bug.VHSnapshot(bugIds[b], comments)
		bc := &BugCache{CachedEntityBase: CachedEntityBase[*bug.Snapshot, bug.Operation]{
			entity: &withSnapshot[*bug.Snapshot, bug.Operation]{snap: &snap},
		}}
		rcb.excerpts[bugIds[b]] = &BugExcerpt{id: bugIds[b]}
		rcb.cached[bugIds[b]] = bc
		rcb.lru.Add(bugIds[b])
	}
	// target: any prefix of any comment's combined id
	t := rt.Choose(len(all))
	L := rt.Choose(65)
	prefix := string(all[t].id)[:L]
	nmatch := 0
	for _, o := range all {
		if hasPrefix(string(o.id), prefix) {
			nmatch++
		}
	}
	got, gotId, err := rcb.ResolveComment(prefix)
	rt.Assert(nmatch >= 1, "target-matches-itself")
	if nmatch == 1 {
		rt.Cover("unique")
		rt.Assert(err == nil, "unique-no-error")
		if err == nil {
			rt.Assert(gotId == all[t].id, "unique-that-comment")
			rt.Assert(got == rcb.cached[bugIds[all[t].bug]], "unique-its-bug")
		}
	} else {
		rt.Cover("ambiguous")
		rt.Assert(err != nil && got == nil, "ambiguous-refused")
		rt.Assert(entity.IsErrMultipleMatch(err), "ambiguous-multiple-match")
	}
	rt.Observe("nmatch", nmatch)
}

// VH_C13_many: a prefix shared by many entities (2..8) still yields a multiple-match
// error listing exactly the matching ids.
func VH_C13_many() {
	total := 8
	k := 2 + rt.Choose(total-1) // how many share the prefix
	sc := NewSubCache[*bug.Bug, *BugExcerpt, *BugCache](nil, nil, nil, nil, nil, nil, Actions[*bug.Bug]{}, "bug", "bugs", 1, 10)
	var ids []entity.Id
	c := rt.NondetByte()
	rt.Assume(rt.IdByte(c))
	rt.Assume(c != 'z')
	for i := 0; i < total; i++ {
		b := []byte("0123456789abcdefghijklmnopqrstuvwxyz0123456789abcdefghijklmnopqr")
		b[1] = "0123456789"[i]
		if i < k {
			b[0] = c
		} else {
			b[0] = 'z'
		}
		id := entity.Id(b)
		ids = append(ids, id)
		sc.excerpts[id] = &BugExcerpt{id: id}
	}
	prefix := string([]byte{c})
	_, err := sc.ResolveExcerptPrefix(prefix)
	mm, ok := err.(*entity.ErrMultipleMatch)
	rt.Assert(ok, "many-multiple-match")
	if !ok {
		return
	}
	rt.Assert(len(mm.Matching) == k, "many-exact-count")
	for i := 0; i < k; i++ {
		found := false
		for _, m := range mm.Matching {
			if m == ids[i] {
				found = true
			}
		}
		rt.Assert(found, "many-lists-each-match")
	}
	if k >= 6 {
		rt.Cover("six-or-more")
	}
}
