#!/bin/sh
# Runs the repository's pinned test suite (guard off) and compares with BASELINE.json.
cd /repo || exit 2
export GOPROXY=off GOSUMDB=off GOTOOLCHAIN=local
go test -mod=mod -json -vet=off -count=1 -timeout 25m ./... > /tmp/verif_baseline.json 2>/dev/null
python3 - <<'PY'
import json
base=set(json.load(open('/root/.vp/BASELINE.json'))['stable_pass'])
res={}
for l in open('/tmp/verif_baseline.json'):
    try: e=json.loads(l)
    except: continue
    if e.get('Action') in('pass','fail') and e.get('Test'):
        res[e['Package']+'::'+e['Test']]=e['Action']
missing=[t for t in base if res.get(t)!='pass']
print('baseline tests passing: %d/%d'%(len(base)-len(missing),len(base)))
for t in missing[:20]: print('  NOT PASSING:',t,res.get(t))
raise SystemExit(1 if missing else 0)
PY
rc=$?
rm -f /tmp/verif_baseline.json
exit $rc
