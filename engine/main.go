// gobmc: bounded symbolic execution of Go (go/ssa) harnesses with an SMT back end.
//
//	gobmc -check checks/C20.json -tier quick
package main

import (
	"context"
	"bytes"
	"encoding/json"
	"flag"
	"fmt"
	"go/ast"
	"go/parser"
	"go/token"
	"go/types"
	"os"
	"os/exec"
	"path/filepath"
	"sort"
	"strconv"
	"strings"
	"sync"
	"time"

	"gobmc/interp"

	"golang.org/x/tools/go/packages"
	"golang.org/x/tools/go/ssa"
	"golang.org/x/tools/go/ssa/ssautil"
)

const modPath = "github.com/MichaelMure/git-bug"

type Rename struct {
	File string `json:"file"` // relative to /repo
	Func string `json:"func"` // "name" or "Recv.name"
}

// Subst replaces a call into a dependency (go-git, the OS) inside the real source text by
// a harness function; the text must occur exactly Count times (default 1), otherwise the
// check is inconclusive (the source changed upstream).
type Subst struct {
	File  string `json:"file"`
	From  string `json:"from"`
	To    string `json:"to"`
	Count int    `json:"count,omitempty"`
}

type Harness struct {
	Name       string                      `json:"name"`
	Pkg        string                      `json:"pkg"`   // import path relative to module ("entity/dag")
	Entry      string                      `json:"entry"` // function name
	Overlay    []string                    `json:"overlay"`
	Rename     []Rename                    `json:"rename"`
	Subst      []Subst                     `json:"subst"`
	Tiers      map[string]map[string]int64 `json:"tiers"`
	Cover      []string                    `json:"cover"`
	MaxSteps   int64                       `json:"max_steps"`
	PathBudget int                         `json:"path_budget"`
	Twin       string                      `json:"twin"` // assertion label flipped in the vacuity twin
	MapOrders  []int                       `json:"map_orders"`
	Functions  []string                    `json:"functions"` // real functions this harness is meant to execute (checked)
	OnlyTier   string                      `json:"only_tier"`
	Replay     string                      `json:"replay"` // "native" (default) | "none" (counterexamples cannot be replayed natively: stubs)
	Iface      *IfaceExpect                `json:"interface_methods"`
}

// IfaceExpect states the method set of an interface the harness enumerates by hand; a
// difference (e.g. a newly added GraphQL mutation) makes the check inconclusive.
type IfaceExpect struct {
	Pkg     string   `json:"pkg"`
	Type    string   `json:"type"`
	Methods []string `json:"methods"`
}

type Check struct {
	Property    string     `json:"property"`
	Level       string     `json:"level"`
	Harnesses   []*Harness `json:"harnesses"`
	Assumptions []string   `json:"assumptions"`
	Stubs       []string   `json:"stubs"`
	Outside     []string   `json:"outside"`
	Bounds      []string   `json:"bounds"`
}

type KnownFinding struct {
	Property string `json:"property"`
	Harness  string `json:"harness"`
	Label    string `json:"label"`
	Status   string `json:"status"` // open | fixed
	Commit   string `json:"commit,omitempty"`
	What     string `json:"what"`
}

type harnessResult struct {
	h             *Harness
	paths         int
	completed     int
	decisions     int
	steps         int64
	violations    []*interp.Violation
	inconclusive  []string
	covers        map[string]bool
	asserts       map[string]int
	samples       []*interp.PathSample
	unknowns      int
	ended         map[string]int
	validated     int
	validationErr []string
	twinOK        bool
	twinRan       bool
	wall          float64
	funcs         map[string]int64
	sat, unsat    int
	unknownQ      int
	solverSec     float64
	budgetHit     bool
}

var (
	flagCheck   = flag.String("check", "", "check config (JSON)")
	flagTier    = flag.String("tier", "quick", "quick|thorough")
	flagNoFailFast = flag.Bool("nofailfast", false, "explore every harness even after a violation that is not a known finding")
	flagWall    = flag.Int("wall", 0, "wall-clock budget per harness exploration in seconds (0: 20 min quick, 90 min thorough)")
	flagRepo    = flag.String("repo", "/repo", "repository under test")
	flagVerif   = flag.String("verif", "/verif", "verif root")
	flagWorkers = flag.Int("workers", 16, "parallel workers")
	flagOnly    = flag.String("only", "", "run only this harness")
	flagNoRep   = flag.Bool("noreplay", false, "skip native replay / validation (debugging only; exit code 2)")
	flagV       = flag.Bool("v", false, "verbose")
	flagTrace   = flag.Bool("trace", false, "trace instructions")
	flagMaxViol = flag.Int("maxviol", 3, "violations kept per label")
	flagReplay  = flag.String("replay", "", "replay a counterexample file natively and print the verdict")
	flagParam   = flag.String("param", "", "override tier parameters, e.g. N=3,L=2 (experiments only)")
	flagCross   = flag.String("crosscheck", "auto", "re-decide recorded solver transcripts with z3 4.8.12 and cvc5: auto (thorough tier only) | on | off")
)

func fatal(code int, format string, args ...interface{}) {
	fmt.Fprintf(os.Stdout, format+"\n", args...)
	os.Exit(code)
}

func main() {
	flag.Parse()
	if *flagReplay != "" {
		os.Exit(replayFile(*flagReplay))
	}
	if *flagCheck == "" {
		fatal(2, "usage: gobmc -check <file> [-tier quick|thorough]")
	}
	start := time.Now()
	data, err := os.ReadFile(*flagCheck)
	if err != nil {
		fatal(2, "INCONCLUSIVE cannot read check: %v", err)
	}
	var chk Check
	if err := json.Unmarshal(data, &chk); err != nil {
		fatal(2, "INCONCLUSIVE bad check config: %v", err)
	}
	seed := 0
	if s := os.Getenv("VERIF_SEED"); s != "" {
		seed, _ = strconv.Atoi(s)
	}
	var hs []*Harness
	for _, h := range chk.Harnesses {
		if *flagOnly != "" && h.Name != *flagOnly && h.Entry != *flagOnly {
			continue
		}
		if h.OnlyTier != "" && h.OnlyTier != *flagTier {
			continue
		}
		hs = append(hs, h)
	}
	if len(hs) == 0 {
		fatal(2, "INCONCLUSIVE no harness selected")
	}

	allHarnesses = hs
	overlay, err := buildOverlay(hs)
	if err != nil {
		fatal(2, "INCONCLUSIVE overlay: %v", err)
	}
	prog, pkgs, err := loadProgram(hs, overlay)
	if err != nil {
		fatal(2, "INCONCLUSIVE load: %v", err)
	}

	cross := *flagCross == "on" || (*flagCross == "auto" && *flagTier == "thorough")
	var crossDir string
	if cross {
		crossDir, _ = os.MkdirTemp("", "gobmc-smt-")
		interp.SolverLogDir = crossDir
		defer os.RemoveAll(crossDir)
	}
	var results []*harnessResult
	knownEarly := loadKnown(chk.Property)
	newViolation := func(r *harnessResult) bool {
		for _, v := range r.violations {
			if matchKnown(knownEarly, chk.Property, r.h.Name, v.Label) == nil {
				return true
			}
		}
		return false
	}
	failed := false
	for _, h := range hs {
		if failed && !*flagNoFailFast {
			// a violation that is not a known finding has been found: the verdict of the
			// check is settled, the remaining harnesses would only cost time on a tree
			// whose state space may have blown up
			fmt.Printf("SKIPPED harness %s: a violation was already found\n", h.Name)
			continue
		}
		isKnownLabel = func(label string) bool { return matchKnown(knownEarly, chk.Property, h.Name, label) != nil }
		r := runHarness(prog, pkgs, h, seed)
		if newViolation(r) {
			failed = true
		}
		if h.Iface != nil {
			if msg := checkIface(prog, h.Iface); msg != "" {
				r.inconclusive = append(r.inconclusive, msg)
			}
		}
		results = append(results, r)
	}

	crossStats := map[string]int{}
	var crossProblems []string
	if cross {
		crossStats, crossProblems = crossCheck(crossDir)
	}
	// native replay of counterexamples and encoder validation
	exit := 0
	known := loadKnown(chk.Property)
	var newViol, knownViol []*interp.Violation
	var inconcl []string
	replayer := newReplayer(overlay)
	defer replayer.cleanup()
	for _, r := range results {
		for _, m := range r.inconclusive {
			inconcl = append(inconcl, r.h.Name+": "+m)
		}
		for _, c := range r.h.Cover {
			if !r.covers[c] {
				inconcl = append(inconcl, fmt.Sprintf("%s: cover point %q not reached (vacuous)", r.h.Name, c))
			}
		}
		if r.h.Twin != "" && r.twinRan && !r.twinOK {
			inconcl = append(inconcl, fmt.Sprintf("%s: vacuity twin did not violate %q", r.h.Name, r.h.Twin))
		}
		if r.budgetHit {
			inconcl = append(inconcl, fmt.Sprintf("%s: path budget exhausted after %d paths", r.h.Name, r.paths))
		}
		for _, f := range r.h.Functions {
			if r.funcs[f] == 0 {
				inconcl = append(inconcl, fmt.Sprintf("%s: expected real function %s was not executed", r.h.Name, f))
			}
		}
		if *flagNoRep {
			for _, v := range r.violations {
				fmt.Printf("UNREPLAYED %s label=%s detail=%s values=%v\n", v.Harness, v.Label, v.Detail, compactVals(v.Values))
			}
			continue
		}
		// validate samples
		if r.h.Replay != "none" {
			nval := 3
			if *flagTier == "thorough" {
				nval = 10
			}
			cnt := 0
			for _, s := range r.samples {
				if cnt >= nval {
					break
				}
				if len(s.Values) == 0 && len(s.Observed) == 0 {
					continue
				}
				cnt++
				ok, msg := replayer.validate(r.h, s, paramsFor(r.h))
				if ok {
					r.validated++
				} else if msg == "native-assume" {
					// the harness declares this path irreproducible natively (rt.Assume on
					// !rt.Symbolic()): not counted, not a failure
					cnt--
				} else {
					r.validationErr = append(r.validationErr, msg)
					inconcl = append(inconcl, r.h.Name+": encoder validation failed: "+msg)
				}
			}
		}
		for _, v := range r.violations {
			if r.h.Replay == "none" {
				inconcl = append(inconcl, fmt.Sprintf("%s: counterexample for %q cannot be replayed natively (stubbed environment)", r.h.Name, v.Label))
				continue
			}
			rep, verdict := replayer.reproduce(r.h, v, paramsFor(r.h))
			if !rep {
				inconcl = append(inconcl, fmt.Sprintf("%s: counterexample for %q did not reproduce natively (%s)", r.h.Name, v.Label, verdict))
				continue
			}
			if kf := matchKnown(known, chk.Property, r.h.Name, v.Label); kf != nil {
				knownViol = append(knownViol, v)
				continue
			}
			newViol = append(newViol, v)
		}
	}

	// report
	printedKnown := map[string]bool{}
	for _, v := range knownViol {
		kf := matchKnown(known, chk.Property, v.Harness, v.Label)
		key := v.Harness + "/" + v.Label
		if !printedKnown[key] {
			printedKnown[key] = true
			fmt.Printf("KNOWN-FINDING: property=%s %s/%s: %s\n", chk.Property, v.Harness, v.Label, kf.What)
		}
	}
	replayDir := filepath.Join(*flagVerif, "replay", chk.Property)
	printedNew := map[string]bool{}
	for n, v := range newViol {
		os.MkdirAll(replayDir, 0755)
		p := filepath.Join(replayDir, fmt.Sprintf("%s-%s-%d.json", v.Harness, sanitize(v.Label), n))
		writeReplay(p, findHarness(hs, v.Harness), v.Values, v, paramsFor(findHarness(hs, v.Harness)))
		key := v.Harness + "/" + v.Label
		if !printedNew[key] {
			printedNew[key] = true
			fmt.Printf("VIOLATION property=%s replay=%s\n", chk.Property, p)
			fmt.Printf("  harness=%s label=%s %s\n", v.Harness, v.Label, v.Detail)
		}
		exit = 1
	}
	for _, m := range crossProblems {
		inconcl = append(inconcl, "cross-solver: "+m)
	}
	crossEvidence = crossStats
	for _, m := range inconcl {
		if len(m) > 1500 {
			m = m[:1500] + "..."
		}
		fmt.Printf("INCONCLUSIVE property=%s %s\n", chk.Property, m)
	}
	if exit == 0 && (len(inconcl) > 0 || *flagNoRep) {
		exit = 2
	}
	writeEvidence(&chk, results, seed, time.Since(start).Seconds(), len(newViol), len(knownViol), inconcl)
	for _, r := range results {
		fmt.Printf("harness %-28s paths=%d completed=%d decisions=%d steps=%d asserts=%d violations=%d unknown=%d validated=%d wall=%.1fs ended=%v\n",
			r.h.Name, r.paths, r.completed, r.decisions, r.steps, sumMap(r.asserts), len(r.violations), r.unknowns, r.validated, r.wall, r.ended)
	}
	switch exit {
	case 0:
		fmt.Printf("OK property=%s tier=%s wall=%.1fs\n", chk.Property, *flagTier, time.Since(start).Seconds())
	}
	replayer.cleanup() // os.Exit does not run deferred calls
	if crossDir != "" {
		os.RemoveAll(crossDir)
	}
	os.Exit(exit)
}

func compactVals(vs []interp.ReplayValue) string {
	var sb strings.Builder
	for _, v := range vs {
		fmt.Fprintf(&sb, "%s:%d ", v.Kind, v.Value)
	}
	return sb.String()
}

func sumMap(m map[string]int) int {
	n := 0
	for _, v := range m {
		n += v
	}
	return n
}

func sanitize(s string) string {
	var sb strings.Builder
	for _, c := range s {
		if (c >= 'a' && c <= 'z') || (c >= 'A' && c <= 'Z') || (c >= '0' && c <= '9') || c == '-' || c == '_' {
			sb.WriteRune(c)
		} else {
			sb.WriteByte('_')
		}
	}
	return sb.String()
}

func findHarness(hs []*Harness, name string) *Harness {
	for _, h := range hs {
		if h.Name == name {
			return h
		}
	}
	return nil
}

func paramsFor(h *Harness) map[string]int64 {
	p := map[string]int64{}
	for k, v := range h.Tiers[*flagTier] {
		p[k] = v
	}
	if *flagParam != "" {
		for _, kv := range strings.Split(*flagParam, ",") {
			if i := strings.IndexByte(kv, '='); i > 0 {
				n, _ := strconv.ParseInt(kv[i+1:], 10, 64)
				p[kv[:i]] = n
			}
		}
	}
	return p
}

// ---------------------------------------------------------------------------
// overlay

func buildOverlay(hs []*Harness) (map[string][]byte, error) {
	ov := map[string][]byte{}
	rtSrc, err := os.ReadFile(filepath.Join(*flagVerif, "rt", "rt.go"))
	if err != nil {
		return nil, err
	}
	ov[filepath.Join(*flagRepo, "zzverif", "rt", "rt.go")] = rtSrc
	renamed := map[string]bool{}
	for _, h := range hs {
		for _, f := range h.Overlay {
			src, err := os.ReadFile(filepath.Join(*flagVerif, "harness", f))
			if err != nil {
				return nil, err
			}
			ov[filepath.Join(*flagRepo, f)] = src
		}
		for _, rn := range h.Rename {
			if renamed[rn.File+"#"+rn.Func] {
				continue
			}
			renamed[rn.File+"#"+rn.Func] = true
			p := filepath.Join(*flagRepo, rn.File)
			src, ok := ov[p]
			if !ok {
				src, err = os.ReadFile(p)
				if err != nil {
					return nil, err
				}
			}
			out, err := renameFunc(p, src, rn.Func)
			if err != nil {
				return nil, err
			}
			ov[p] = out
		}
		for _, sb := range h.Subst {
			key := sb.File + "#subst#" + sb.From
			if renamed[key] {
				continue
			}
			renamed[key] = true
			p := filepath.Join(*flagRepo, sb.File)
			src, ok := ov[p]
			if !ok {
				src, err = os.ReadFile(p)
				if err != nil {
					return nil, err
				}
			}
			want := sb.Count
			if want == 0 {
				want = 1
			}
			if n := bytes.Count(src, []byte(sb.From)); n != want {
				return nil, fmt.Errorf("substitution %q occurs %d times in %s, expected %d (source changed upstream?)", sb.From, n, sb.File, want)
			}
			ov[p] = bytes.ReplaceAll(src, []byte(sb.From), []byte(sb.To))
		}
	}
	return ov, nil
}

// renameFunc renames the declaration of fn ("name" or "Recv.name") to name__orig so
// that a harness file can provide the replacement under the original name.
func renameFunc(path string, src []byte, fn string) ([]byte, error) {
	fset := token.NewFileSet()
	f, err := parser.ParseFile(fset, path, src, parser.ParseComments)
	if err != nil {
		return nil, err
	}
	recv, name := "", fn
	if i := strings.IndexByte(fn, '.'); i >= 0 {
		recv, name = fn[:i], fn[i+1:]
	}
	for _, d := range f.Decls {
		fd, ok := d.(*ast.FuncDecl)
		if !ok || fd.Name.Name != name {
			continue
		}
		r := ""
		if fd.Recv != nil && len(fd.Recv.List) == 1 {
			t := fd.Recv.List[0].Type
			if st, ok := t.(*ast.StarExpr); ok {
				t = st.X
			}
			if ix, ok := t.(*ast.IndexExpr); ok {
				t = ix.X
			}
			if id, ok := t.(*ast.Ident); ok {
				r = id.Name
			}
		}
		if r != recv {
			continue
		}
		off := fset.Position(fd.Name.End()).Offset
		out := append([]byte{}, src[:off]...)
		out = append(out, []byte("__orig")...)
		out = append(out, src[off:]...)
		return out, nil
	}
	return nil, fmt.Errorf("function %s not found in %s (renamed or removed upstream?)", fn, path)
}

// ---------------------------------------------------------------------------
// loading

func goEnv() []string {
	env := os.Environ()
	env = append(env, "GOFLAGS=-mod=mod", "GOPROXY=off", "GOSUMDB=off", "GOTOOLCHAIN=local", "CGO_ENABLED=0")
	return env
}

func loadProgram(hs []*Harness, overlay map[string][]byte) (*ssa.Program, map[string]*ssa.Package, error) {
	patterns := []string{modPath + "/zzverif/rt"}
	seen := map[string]bool{}
	for _, h := range hs {
		p := modPath + "/" + h.Pkg
		if !seen[p] {
			seen[p] = true
			patterns = append(patterns, p)
		}
	}
	cfg := &packages.Config{
		Mode:    packages.LoadAllSyntax,
		Dir:     *flagRepo,
		Env:     goEnv(),
		Overlay: overlay,
	}
	t0 := time.Now()
	initial, err := packages.Load(cfg, patterns...)
	if err != nil {
		return nil, nil, err
	}
	var errs []string
	packages.Visit(initial, nil, func(p *packages.Package) {
		for _, e := range p.Errors {
			if strings.HasPrefix(p.PkgPath, modPath) {
				errs = append(errs, e.Error())
			}
		}
	})
	if len(errs) > 0 {
		if len(errs) > 10 {
			errs = errs[:10]
		}
		return nil, nil, fmt.Errorf("package errors (harness no longer compiles against this tree?):\n  %s", strings.Join(errs, "\n  "))
	}
	prog, spkgs := ssautil.AllPackages(initial, ssa.InstantiateGenerics|ssa.BareInits)
	out := map[string]*ssa.Package{}
	for i, p := range initial {
		if spkgs[i] == nil {
			return nil, nil, fmt.Errorf("no SSA package for %s", p.PkgPath)
		}
		spkgs[i].Build()
		out[p.PkgPath] = spkgs[i]
	}
	if *flagV {
		fmt.Fprintf(os.Stderr, "gobmc: loaded %d packages in %.1fs\n", len(prog.AllPackages()), time.Since(t0).Seconds())
	}
	return prog, out, nil
}

// ---------------------------------------------------------------------------
// exploration

type workQueue struct {
	mu     sync.Mutex
	cond   *sync.Cond
	items  [][]int32
	active int
	done   bool
}

func newQueue() *workQueue {
	q := &workQueue{}
	q.cond = sync.NewCond(&q.mu)
	return q
}

func (q *workQueue) push(items ...[]int32) {
	q.mu.Lock()
	q.items = append(q.items, items...)
	q.mu.Unlock()
	q.cond.Broadcast()
}

func (q *workQueue) pop() ([]int32, bool) {
	q.mu.Lock()
	defer q.mu.Unlock()
	for {
		if q.done {
			return nil, false
		}
		if n := len(q.items); n > 0 {
			it := q.items[n-1]
			q.items = q.items[:n-1]
			q.active++
			return it, true
		}
		if q.active == 0 {
			q.done = true
			q.cond.Broadcast()
			return nil, false
		}
		q.cond.Wait()
	}
}

func (q *workQueue) finish() {
	q.mu.Lock()
	q.active--
	q.mu.Unlock()
	q.cond.Broadcast()
}

func (q *workQueue) stop() {
	q.mu.Lock()
	q.done = true
	q.mu.Unlock()
	q.cond.Broadcast()
}

func runHarness(prog *ssa.Program, pkgs map[string]*ssa.Package, h *Harness, seed int) *harnessResult {
	res := &harnessResult{h: h, covers: map[string]bool{}, asserts: map[string]int{}, ended: map[string]int{}, funcs: map[string]int64{}}
	t0 := time.Now()
	pkg := pkgs[modPath+"/"+h.Pkg]
	if pkg == nil {
		res.inconclusive = append(res.inconclusive, "package not loaded: "+h.Pkg)
		return res
	}
	entry := pkg.Func(h.Entry)
	if entry == nil {
		res.inconclusive = append(res.inconclusive, "entry not found: "+h.Entry)
		return res
	}
	orders := h.MapOrders
	if len(orders) == 0 {
		orders = []int{0}
	}
	for _, order := range orders {
		explore(prog, entry, h, order, res, false)
	}
	if h.Twin != "" && len(res.inconclusive) == 0 {
		tw := &harnessResult{h: h, covers: map[string]bool{}, asserts: map[string]int{}, ended: map[string]int{}, funcs: map[string]int64{}}
		explore(prog, entry, h, orders[0], tw, true)
		res.twinRan = true
		for _, v := range tw.violations {
			if v.Label == h.Twin {
				res.twinOK = true
			}
		}
	}
	res.wall = time.Since(t0).Seconds()
	return res
}

// isKnownLabel tells whether a violation label of the harness being explored is an open
// known finding (those do not stop the exploration).
var isKnownLabel func(label string) bool

func explore(prog *ssa.Program, entry *ssa.Function, h *Harness, mapOrder int, res *harnessResult, twin bool) {
	params := paramsFor(h)
	if twin {
		params["__twin"] = 1
	}
	budget := h.PathBudget
	if budget == 0 {
		budget = 2_000_000
	}
	q := newQueue()
	q.push([]int32{})
	var mu sync.Mutex
	var wg sync.WaitGroup
	nw := *flagWorkers
	// wall-clock budget per exploration: a changed tree can blow the state space up; the
	// run then ends inconclusive (or with the violations found so far) instead of never
	wall := time.Duration(*flagWall) * time.Second
	if *flagWall == 0 {
		wall = 20 * time.Minute
		if *flagTier == "thorough" {
			wall = 90 * time.Minute
		}
	}
	deadline := time.Now().Add(wall)
	violPerLabel := map[string]int{}
	for w := 0; w < nw; w++ {
		wg.Add(1)
		go func(w int) {
			defer wg.Done()
			opt := interp.Options{MaxSteps: h.MaxSteps, Params: params, MapOrder: mapOrder, Trace: *flagTrace, TwinLabel: ""}
			if twin {
				opt.TwinLabel = h.Twin
			}
			wk, err := interp.NewWorker(prog, opt)
			if err != nil {
				mu.Lock()
				res.inconclusive = append(res.inconclusive, "worker: "+err.Error())
				mu.Unlock()
				q.stop()
				return
			}
			defer wk.Close()
			for {
				prefix, ok := q.pop()
				if !ok {
					break
				}
				mu.Lock()
				n := res.paths
				res.paths++
				wantSample := len(res.samples) < 12 || n%5000 == 0
				mu.Unlock()
				pr := wk.Run(entry, h.Name, prefix, wantSample)
				if *flagV {
					fmt.Fprintf(os.Stderr, "path %d prefix=%d dec=%d new=%d steps=%d end=%q sib=%d\n", n, len(prefix), len(pr.Decisions), pr.NewDecisions, pr.Steps, pr.Ended, len(pr.Siblings))
				}
				q.push(pr.Siblings...)
				mu.Lock()
				res.decisions += pr.NewDecisions
				res.steps += pr.Steps
				res.unknowns += pr.Unknowns
				end := pr.Ended
				if end == "" {
					end = "returned"
					res.completed++
				}
				res.ended[end]++
				for c := range pr.Covers {
					res.covers[c] = true
				}
				for a, c := range pr.AssertsSeen {
					res.asserts[a] += c
				}
				for _, m := range pr.Inconclusive {
					if len(res.inconclusive) < 20 {
						res.inconclusive = append(res.inconclusive, m)
					}
				}
				for _, v := range pr.Violations {
					if violPerLabel[v.Label] < *flagMaxViol {
						violPerLabel[v.Label]++
						res.violations = append(res.violations, v)
					}
				}
				if pr.Sample != nil && len(res.samples) < 40 {
					res.samples = append(res.samples, pr.Sample)
				}
				stop := false
				if res.paths >= budget {
					res.budgetHit = true
					stop = true
				}
				if twin && len(res.violations) > 0 {
					stop = true
				}
				if !twin && !*flagNoFailFast {
					fresh := 0
					for _, v := range res.violations {
						if isKnownLabel == nil || !isKnownLabel(v.Label) {
							fresh++
						}
					}
					if fresh >= 3 {
						stop = true // enough counterexamples to report
					}
				}
				if len(res.inconclusive) >= 20 {
					stop = true
				}
				if time.Now().After(deadline) && !res.budgetHit {
					res.budgetHit = true
					res.inconclusive = append(res.inconclusive, fmt.Sprintf("wall-clock budget of %s exceeded after %d paths", wall, res.paths))
					stop = true
				}
				mu.Unlock()
				q.finish()
				if stop {
					q.stop()
				}
			}
			mu.Lock()
			for f, c := range wk.Stats().Funcs {
				res.funcs[f] += c
			}
			s, u, k, sec := wk.SolverStats()
			res.sat += s
			res.unsat += u
			res.unknownQ += k
			res.solverSec += sec
			if len(wk.Stats().InitFailures) > 0 && *flagV {
				fmt.Fprintf(os.Stderr, "gobmc: init failures: %v\n", wk.Stats().InitFailures)
			}
			mu.Unlock()
		}(w)
	}
	wg.Wait()
}

// ---------------------------------------------------------------------------
// native replay

type replayer struct {
	overlay map[string][]byte
	dir     string
	bins    map[string]string // pkg -> test binary
	errs    map[string]string
}

func newReplayer(ov map[string][]byte) *replayer {
	return &replayer{overlay: ov, bins: map[string]string{}, errs: map[string]string{}}
}

func (r *replayer) cleanup() {
	if r.dir != "" {
		os.RemoveAll(r.dir)
	}
}

func (r *replayer) binary(h *Harness, all []*Harness) (string, error) {
	if b, ok := r.bins[h.Pkg]; ok {
		if b == "" {
			return "", fmt.Errorf("%s", r.errs[h.Pkg])
		}
		return b, nil
	}
	if r.dir == "" {
		d, err := os.MkdirTemp("", "gobmc-replay-")
		if err != nil {
			return "", err
		}
		r.dir = d
	}
	// write overlay files to disk and build the JSON overlay for the go command
	ovDir := filepath.Join(r.dir, "ov")
	os.MkdirAll(ovDir, 0755)
	repl := map[string]string{}
	n := 0
	for path, src := range r.overlay {
		n++
		real := filepath.Join(ovDir, fmt.Sprintf("f%d_%s", n, filepath.Base(path)))
		if err := os.WriteFile(real, src, 0644); err != nil {
			return "", err
		}
		repl[path] = real
	}
	// test driver for this package
	pkgDir := filepath.Join(*flagRepo, h.Pkg)
	pkgName, err := packageName(pkgDir)
	if err != nil {
		// overlay-only package: take the name from an overlay file
		pkgName = ""
		for path, src := range r.overlay {
			if filepath.Dir(path) == pkgDir {
				if f, e := parser.ParseFile(token.NewFileSet(), path, src, parser.PackageClauseOnly); e == nil {
					pkgName = f.Name.Name
				}
			}
		}
		if pkgName == "" {
			return "", err
		}
	}
	var sb strings.Builder
	fmt.Fprintf(&sb, "package %s\n\nimport (\n\t\"os\"\n\t\"testing\"\n\n\tzzrt \"%s/zzverif/rt\"\n)\n\n", pkgName, modPath)
	fmt.Fprintf(&sb, "func TestVerifReplay(t *testing.T) {\n\tswitch os.Getenv(\"VERIF_HARNESS\") {\n")
	entries := map[string]bool{}
	for _, hh := range allHarnesses {
		if hh.Pkg == h.Pkg && !entries[hh.Entry] {
			entries[hh.Entry] = true
			fmt.Fprintf(&sb, "\tcase %q:\n\t\tzzrt.RunReplay(%s)\n", hh.Entry, hh.Entry)
		}
	}
	fmt.Fprintf(&sb, "\tdefault:\n\t\tt.Fatal(\"unknown harness\")\n\t}\n}\n")
	drv := filepath.Join(ovDir, "driver_"+sanitize(h.Pkg)+"_test.go")
	os.WriteFile(drv, []byte(sb.String()), 0644)
	repl[filepath.Join(pkgDir, "zz_verif_replay_test.go")] = drv
	ovJSON, _ := json.Marshal(map[string]interface{}{"Replace": repl})
	ovFile := filepath.Join(r.dir, "overlay_"+sanitize(h.Pkg)+".json")
	os.WriteFile(ovFile, ovJSON, 0644)
	bin := filepath.Join(r.dir, sanitize(h.Pkg)+".test")
	args := []string{"test", "-c", "-vet=off", "-overlay", ovFile, "-o", bin, "./" + h.Pkg}
	if os.Getenv("GOBMC_RACE") != "" {
		args = append([]string{"test", "-race"}, args[1:]...) // debugging aid for the harness models
	}
	cmd := exec.Command("go", args...)
	cmd.Dir = *flagRepo
	cmd.Env = goEnv()
	out, err := cmd.CombinedOutput()
	if err != nil {
		r.bins[h.Pkg] = ""
		r.errs[h.Pkg] = fmt.Sprintf("native build failed: %v\n%s", err, tail(string(out), 2000))
		return "", fmt.Errorf("%s", r.errs[h.Pkg])
	}
	r.bins[h.Pkg] = bin
	return bin, nil
}

var allHarnesses []*Harness

func tail(s string, n int) string {
	if len(s) > n {
		return s[len(s)-n:]
	}
	return s
}

func packageName(dir string) (string, error) {
	ents, err := os.ReadDir(dir)
	if err != nil {
		return "", err
	}
	fset := token.NewFileSet()
	for _, e := range ents {
		if strings.HasSuffix(e.Name(), ".go") && !strings.HasSuffix(e.Name(), "_test.go") {
			f, err := parser.ParseFile(fset, filepath.Join(dir, e.Name()), nil, parser.PackageClauseOnly)
			if err == nil {
				return f.Name.Name, nil
			}
		}
	}
	return "", fmt.Errorf("no Go files in %s", dir)
}

type replayDoc struct {
	Harness  string               `json:"harness"`
	Entry    string               `json:"entry"`
	Pkg      string               `json:"pkg"`
	Label    string               `json:"label"`
	Kind     string               `json:"kind"`
	Detail   string               `json:"detail,omitempty"`
	Values   []interp.ReplayValue `json:"values"`
	Params   map[string]int64     `json:"params"`
	Overlay  []string             `json:"overlay"`
	Rename   []Rename             `json:"rename,omitempty"`
	Subst    []Subst              `json:"subst,omitempty"`
	Decision []int32              `json:"decisions,omitempty"`
}

func writeReplay(path string, h *Harness, vals []interp.ReplayValue, v *interp.Violation, params map[string]int64) {
	doc := replayDoc{Harness: h.Name, Entry: h.Entry, Pkg: h.Pkg, Values: vals, Params: params, Overlay: h.Overlay, Rename: h.Rename, Subst: h.Subst}
	if v != nil {
		doc.Label, doc.Kind, doc.Detail, doc.Decision = v.Label, v.Kind, v.Detail, v.Decisions
	}
	data, _ := json.MarshalIndent(doc, "", " ")
	os.WriteFile(path, data, 0644)
}

type nativeResult struct {
	verdict  string
	detail   string
	observed []string
	covers   []string
	raw      string
}

func (r *replayer) run(h *Harness, vals []interp.ReplayValue, params map[string]int64) (*nativeResult, error) {
	bin, err := r.binary(h, nil)
	if err != nil {
		return nil, err
	}
	f, err := os.CreateTemp(r.dir, "replay-*.json")
	if err != nil {
		return nil, err
	}
	f.Close()
	writeReplay(f.Name(), h, vals, nil, params)
	defer os.Remove(f.Name())
	cmd := exec.Command(bin, "-test.run", "^TestVerifReplay$", "-test.v", "-test.timeout", "120s")
	cmd.Dir = filepath.Join(*flagRepo, h.Pkg)
	if _, err := os.Stat(cmd.Dir); err != nil {
		cmd.Dir = r.dir
	}
	cmd.Env = append(goEnv(), "VERIF_REPLAY="+f.Name(), "VERIF_HARNESS="+h.Entry)
	for k, v := range params {
		cmd.Env = append(cmd.Env, fmt.Sprintf("VERIF_PARAM_%s=%d", k, v))
	}
	var buf bytes.Buffer
	cmd.Stdout = &buf
	cmd.Stderr = &buf
	cmd.Run()
	nr := &nativeResult{raw: buf.String()}
	for _, line := range strings.Split(buf.String(), "\n") {
		line = strings.TrimSpace(line)
		switch {
		case strings.HasPrefix(line, "REPLAY-VERDICT "):
			rest := strings.TrimPrefix(line, "REPLAY-VERDICT ")
			sp := strings.SplitN(rest, " ", 2)
			nr.verdict = sp[0]
			if len(sp) > 1 {
				nr.detail, _ = strconv.Unquote(sp[1])
			}
		case strings.HasPrefix(line, "REPLAY-OBSERVE "):
			nr.observed = append(nr.observed, strings.TrimPrefix(line, "REPLAY-OBSERVE "))
		case strings.HasPrefix(line, "REPLAY-COVER "):
			nr.covers = append(nr.covers, strings.TrimPrefix(line, "REPLAY-COVER "))
		}
	}
	if nr.verdict == "" {
		nr.verdict = "crash"
		nr.detail = tail(buf.String(), 600)
	}
	return nr, nil
}

// reproduce replays a counterexample against the real build.
func (r *replayer) reproduce(h *Harness, v *interp.Violation, params map[string]int64) (bool, string) {
	// native behaviour may depend on Go's randomised map iteration order, which the
	// executor explores as a policy: a counterexample counts as reproduced when one of a
	// few native runs shows it
	var last string
	for attempt := 0; attempt < 8; attempt++ {
		ok, msg := r.reproduceOnce(h, v, params)
		if ok {
			return true, msg
		}
		last = msg
	}
	return false, last
}

func (r *replayer) reproduceOnce(h *Harness, v *interp.Violation, params map[string]int64) (bool, string) {
	nr, err := r.run(h, v.Values, params)
	if err != nil {
		return false, err.Error()
	}
	switch v.Kind {
	case "assert":
		if nr.verdict == "assert" && nr.detail == v.Label {
			return true, "assert " + nr.detail
		}
		// a "never crashes" assertion: natively a panic inside a goroutine of the code under
		// test cannot be caught by the harness and kills the test process
		if nr.verdict == "crash" && (strings.Contains(v.Label, "no-panic") || strings.Contains(v.Label, "no-crash")) {
			v.Detail = v.Detail + " | native process crashed: " + firstLine(nr.detail)
			return true, "crash"
		}
	case "panic":
		if nr.verdict == "panic" || nr.verdict == "crash" {
			v.Detail = v.Detail + " | native: " + firstLine(nr.detail)
			return true, "panic"
		}
	}
	return false, fmt.Sprintf("native verdict %s %q", nr.verdict, firstLine(nr.detail))
}

func firstLine(s string) string {
	if i := strings.IndexByte(s, '\n'); i >= 0 {
		return s[:i]
	}
	return s
}

// validate replays a witness of a completed path and compares verdict + observations.
func (r *replayer) validate(h *Harness, s *interp.PathSample, params map[string]int64) (bool, string) {
	nr, err := r.run(h, s.Values, params)
	if err != nil {
		return false, err.Error()
	}
	if nr.verdict == "assume" {
		return false, "native-assume"
	}
	if nr.verdict != "ok" {
		return false, fmt.Sprintf("witness of a passing path gave native verdict %s %q (values %s)", nr.verdict, firstLine(nr.detail), compactVals(s.Values))
	}
	var want []string
	for _, o := range s.Observed {
		want = append(want, o.Label+"="+o.Val)
	}
	if strings.Join(want, "\n") != strings.Join(nr.observed, "\n") {
		return false, fmt.Sprintf("observations differ: symbolic %v native %v (values %s)", want, nr.observed, compactVals(s.Values))
	}
	return true, ""
}

func replayFile(path string) int {
	data, err := os.ReadFile(path)
	if err != nil {
		fmt.Println("cannot read", path, err)
		return 2
	}
	var doc replayDoc
	if err := json.Unmarshal(data, &doc); err != nil {
		fmt.Println("bad replay file", err)
		return 2
	}
	h := &Harness{Name: doc.Harness, Entry: doc.Entry, Pkg: doc.Pkg, Overlay: doc.Overlay, Rename: doc.Rename, Subst: doc.Subst}
	allHarnesses = []*Harness{h}
	ov, err := buildOverlay([]*Harness{h})
	if err != nil {
		fmt.Println("overlay:", err)
		return 2
	}
	r := newReplayer(ov)
	defer r.cleanup()
	nr, err := r.run(h, doc.Values, doc.Params)
	if err != nil {
		fmt.Println("replay failed:", err)
		return 2
	}
	fmt.Printf("native verdict: %s %q\n", nr.verdict, nr.detail)
	if os.Getenv("GOBMC_DEBUG") != "" {
		fmt.Println(nr.raw)
	}
	for _, o := range nr.observed {
		fmt.Println("  observed", o)
	}
	if nr.verdict == "ok" {
		return 0
	}
	return 1
}

// ---------------------------------------------------------------------------
// known findings, evidence

func loadKnown(prop string) []KnownFinding {
	data, err := os.ReadFile(filepath.Join(*flagVerif, "known_findings.json"))
	if err != nil {
		return nil
	}
	var all []KnownFinding
	if err := json.Unmarshal(data, &all); err != nil {
		fmt.Printf("INCONCLUSIVE known_findings.json unreadable: %v\n", err)
		return nil
	}
	return all
}

func matchKnown(known []KnownFinding, prop, harness, label string) *KnownFinding {
	for i := range known {
		k := &known[i]
		if k.Status == "open" && k.Property == prop && k.Harness == harness && k.Label == label {
			return k
		}
	}
	return nil
}

func writeEvidence(chk *Check, results []*harnessResult, seed int, wall float64, nviol, nknown int, inconcl []string) {
	states, transitions, validated := 0, 0, 0
	var samples []interface{}
	perHarness := []interface{}{}
	funcs := map[string]int64{}
	sat, unsat, unknown := 0, 0, 0
	solverSec := 0.0
	coverAll := map[string]bool{}
	for _, r := range results {
		states += r.completed
		transitions += r.decisions
		validated += r.validated
		for k, s := range r.samples {
			if k >= 3 {
				break
			}
			samples = append(samples, map[string]interface{}{"harness": r.h.Name, "decisions": s.Decisions, "values": compactVals(s.Values), "asserts": s.Asserts, "covers": s.Covers, "observed": s.Observed})
		}
		for f, c := range r.funcs {
			funcs[f] += c
		}
		sat += r.sat
		unsat += r.unsat
		unknown += r.unknownQ
		solverSec += r.solverSec
		var covers []string
		for c := range r.covers {
			covers = append(covers, c)
			coverAll[r.h.Name+":"+c] = true
		}
		sort.Strings(covers)
		perHarness = append(perHarness, map[string]interface{}{
			"name": r.h.Name, "entry": r.h.Pkg + "." + r.h.Entry, "bounds": paramsFor(r.h), "paths": r.paths,
			"completed_paths": r.completed, "path_ends": r.ended, "decisions": r.decisions, "instructions": r.steps,
			"assertions_checked": r.asserts, "cover_points": covers, "violations": len(r.violations),
			"solver_unknown_branches": r.unknowns, "wall_s": r.wall, "twin_violated": r.twinOK, "twin_ran": r.twinRan,
			"validated_natively": r.validated,
		})
	}
	if states == 0 {
		states = 0
	}
	var fnList []string
	for f := range funcs {
		fnList = append(fnList, f)
	}
	sort.Strings(fnList)
	fnCalls := map[string]int64{}
	for _, f := range fnList {
		fnCalls[f] = funcs[f]
	}
	if len(samples) == 0 {
		samples = append(samples, "no completed path")
	}
	ev := map[string]interface{}{
		"property_id": chk.Property,
		"tier":        *flagTier,
		"seed":        seed,
		"level":       "model_checking",
		"coverage": map[string]interface{}{
			"states":                        states,
			"transitions":                   transitions,
			"traces_validated_against_impl": validated,
			"samples":                       samples,
			"exhaustive":                    len(inconcl) == 0,
			"explanation":                   "states = feasible symbolic paths of the harness run to completion; transitions = solver-decided branch points; each path's assertions are discharged by the SMT solver over all values of its symbolic inputs",
			"harnesses":                     perHarness,
			"functions_encoded":             fnCalls,
			"queries":                       map[string]int{"sat": sat, "unsat": unsat, "unknown": unknown},
			"solver_time_s":                 solverSec,
			"solver":                        strings.Join(interp.SolverCommand, " "),
			"bounds":                        chk.Bounds,
			"stubs":                         chk.Stubs,
			"outside_claim":                 chk.Outside,
			"inconclusive":                  inconcl,
			"known_findings_seen":           nknown,
			"cross_solver":                  crossEvidence,
		},
		"assumptions": chk.Assumptions,
		"wall_s":      wall,
		"violations":  nviol,
	}
	data, _ := json.MarshalIndent(ev, "", " ")
	dir := "evidence"
	if *flagOnly != "" || *flagParam != "" || *flagNoRep || *flagRepo != "/repo" {
		dir = "evidence_scratch" // experiments never overwrite the registered evidence
	}
	os.MkdirAll(filepath.Join(*flagVerif, dir), 0755)
	os.WriteFile(filepath.Join(*flagVerif, dir, chk.Property+".json"), data, 0644)
}

func checkIface(prog *ssa.Program, e *IfaceExpect) string {
	p := prog.ImportedPackage(e.Pkg)
	if p == nil {
		return "interface check: package not loaded: " + e.Pkg
	}
	obj := p.Pkg.Scope().Lookup(e.Type)
	if obj == nil {
		return "interface check: type not found: " + e.Type
	}
	it, ok := obj.Type().Underlying().(*types.Interface)
	if !ok {
		return "interface check: not an interface: " + e.Type
	}
	have := map[string]bool{}
	for i := 0; i < it.NumMethods(); i++ {
		have[it.Method(i).Name()] = true
	}
	var diff []string
	for _, m := range e.Methods {
		if !have[m] {
			diff = append(diff, "-"+m)
		}
		delete(have, m)
	}
	for m := range have {
		diff = append(diff, "+"+m)
	}
	if len(diff) > 0 {
		sort.Strings(diff)
		return fmt.Sprintf("the method set of %s.%s differs from what the harness enumerates (%s): extend the harness", e.Pkg, e.Type, strings.Join(diff, " "))
	}
	return ""
}

var crossEvidence map[string]int

// crossCheck feeds the recorded transcripts (z3 5.1 answers included as comments) to
// z3 4.8.12 and cvc5 and compares the sat/unsat answers query by query.
func crossCheck(dir string) (map[string]int, []string) {
	stats := map[string]int{"queries_compared_z3_4_8": 0, "queries_compared_cvc5": 0, "disagreements": 0, "other_solver_unknown": 0}
	var problems []string
	files, _ := filepath.Glob(filepath.Join(dir, "*.smt2"))
	sort.Strings(files)
	// The transcripts are re-decided in parallel, up to about 12 000 queries per solver and
	// five minutes per transcript and solver (the older z3 is several times slower).
	const maxQueries = 12000
	var mu sync.Mutex
	var wg sync.WaitGroup
	sem := make(chan struct{}, *flagWorkers)
	for _, f := range files {
		mu.Lock()
		enough := stats["queries_compared_cvc5"] >= maxQueries
		mu.Unlock()
		if enough {
			break
		}
		data, err := os.ReadFile(f)
		if err != nil || len(data) == 0 {
			continue
		}
		// cut at the last (reset) so the script is well formed
		text := string(data)
		if i := strings.LastIndex(text, "(reset)"); i > 0 {
			text = text[:i]
		}
		var script strings.Builder
		var want []string
		for _, line := range strings.Split(text, "\n") {
			if strings.HasPrefix(line, "; -> ") {
				a := strings.TrimPrefix(line, "; -> ")
				if a == "sat" || a == "unsat" || a == "unknown" {
					want = append(want, a)
				}
				continue
			}
			if strings.HasPrefix(line, "(set-option :timeout") || strings.HasPrefix(line, "(get-value") {
				continue
			}
			script.WriteString(line)
			script.WriteString("\n")
		}
		f, want, scriptText := f, want, script.String()
		sem <- struct{}{}
		wg.Add(1)
		go func() {
			defer wg.Done()
			defer func() { <-sem }()
			for _, sv := range []struct {
				key  string
				argv []string
			}{{"queries_compared_z3_4_8", []string{"z3", "-in", "-t:20000"}}, {"queries_compared_cvc5", []string{"cvc5", "--incremental", "--tlimit-per=20000"}}} {
				ctx, cancel := context.WithTimeout(context.Background(), 5*time.Minute)
				cmd := exec.CommandContext(ctx, sv.argv[0], sv.argv[1:]...)
				cmd.Stdin = strings.NewReader(scriptText)
				out, _ := cmd.Output()
				timedOut := ctx.Err() != nil
				cancel()
				var got []string
				mu.Lock()
				for _, l := range strings.Split(string(out), "\n") {
					l = strings.TrimSpace(l)
					if l == "sat" || l == "unsat" || l == "unknown" {
						got = append(got, l)
					} else if strings.HasPrefix(l, "(error") {
						problems = append(problems, fmt.Sprintf("%s reported %s", sv.argv[0], l))
					}
				}
				n := len(want)
				if len(got) < n {
					n = len(got)
					if !timedOut {
						problems = append(problems, fmt.Sprintf("%s answered %d of %d queries of %s", sv.argv[0], len(got), len(want), filepath.Base(f)))
					} else {
						stats["transcripts_cut_by_time_limit"]++
					}
				}
				for k := 0; k < n; k++ {
					if got[k] == "unknown" || want[k] == "unknown" {
						stats["other_solver_unknown"]++
						continue
					}
					stats[sv.key]++
					if got[k] != want[k] {
						stats["disagreements"]++
						if len(problems) < 5 {
							problems = append(problems, fmt.Sprintf("%s says %s, z3 5.1 said %s on query %d of %s", sv.argv[0], got[k], want[k], k, filepath.Base(f)))
						}
					}
				}
				mu.Unlock()
			}
		}()
	}
	wg.Wait()
	return stats, problems
}
