package interp

// Channels and goroutines. One deterministic cooperative schedule: a goroutine runs
// until it blocks, then the next runnable one (round robin by creation order) runs.
// This is a modelling bound, not a concurrency exploration.

import (
	"fmt"
	"go/types"

	"golang.org/x/tools/go/ssa"
)

type chanv struct {
	buf    []value
	cap    int
	closed bool
	// rendezvous support for unbuffered channels
	sendq []*waitingSend
	recvWaiters int
}

type waitingSend struct {
	v    value
	done bool
}

func (c *chanv) length() int {
	if c == nil {
		return 0
	}
	return len(c.buf)
}
func (c *chanv) capacity() int {
	if c == nil {
		return 0
	}
	return c.cap
}

func (i *interpreter) makeChan(size int64) *chanv {
	return &chanv{cap: int(size)}
}

// goroutine bookkeeping: each interpreted goroutine is a host goroutine that only
// runs while it holds the baton.
type gor struct {
	id      int
	resume  chan struct{}
	exited  chan struct{}
	done    bool
	started bool
	kill    bool
	killed  bool
	fn      value
	args    []value
}

func (i *interpreter) spawn(fr *frame, instr *ssa.Go, fn value, args []value) {
	i.goSpawn(fn, args)
}

func (i *interpreter) chanSend(c value, v value) {
	ch := c.(*chanv)
	if ch == nil {
		i.blockForever("send on nil channel")
	}
	for {
		if ch.closed {
			panic(targetPanic{v: iface{i.runtimeErrorString, "send on closed channel"}, runtime: true})
		}
		if ch.cap > 0 && len(ch.buf) < ch.cap {
			ch.buf = append(ch.buf, v)
			i.madeProgress()
			return
		}
		if ch.cap == 0 {
			// rendezvous: enqueue and wait until a receiver takes it
			ws := &waitingSend{v: v}
			ch.sendq = append(ch.sendq, ws)
			i.madeProgress()
			for !ws.done {
				if ch.closed {
					panic(targetPanic{v: iface{i.runtimeErrorString, "send on closed channel"}, runtime: true})
				}
				i.yield("chan send")
			}
			i.madeProgress()
			return
		}
		i.yield("chan send (full)")
	}
}

// chanRecv receives from c; ok is false when the channel is closed and drained.
func (i *interpreter) chanRecv(c value, elem types.Type) (value, bool) {
	ch := c.(*chanv)
	if ch == nil {
		i.blockForever("receive from nil channel")
	}
	for {
		if v, ok, ready := ch.tryRecv(); ready {
			i.madeProgress()
			if !ok {
				return zero(elem), false
			}
			return v, true
		}
		i.yield("chan recv")
	}
}

func (ch *chanv) tryRecv() (v value, ok bool, ready bool) {
	if len(ch.buf) > 0 {
		v = ch.buf[0]
		ch.buf = ch.buf[1:]
		return v, true, true
	}
	if len(ch.sendq) > 0 {
		ws := ch.sendq[0]
		ch.sendq = ch.sendq[1:]
		ws.done = true
		return ws.v, true, true
	}
	if ch.closed {
		return nil, false, true
	}
	return nil, false, false
}

func (ch *chanv) canSend() bool {
	if ch.closed {
		return true // will panic
	}
	if ch.cap > 0 {
		return len(ch.buf) < ch.cap
	}
	return false
}

func (i *interpreter) chanClose(c value) {
	ch := c.(*chanv)
	if ch == nil {
		panic(targetPanic{v: iface{i.runtimeErrorString, "close of nil channel"}, runtime: true})
	}
	if ch.closed {
		panic(targetPanic{v: iface{i.runtimeErrorString, "close of closed channel"}, runtime: true})
	}
	ch.closed = true
	i.madeProgress()
}

func (i *interpreter) doSelect(fr *frame, instr *ssa.Select) value {
	for {
		// choose the first ready case in source order (deterministic)
		for idx, st := range instr.States {
			ch, _ := fr.get(st.Chan).(*chanv)
			if ch == nil {
				continue
			}
			if st.Dir == types.RecvOnly {
				if v, ok, ready := ch.tryRecv(); ready {
					r := tuple{idx, ok}
					for j, st2 := range instr.States {
						if st2.Dir == types.RecvOnly {
							if j == idx && ok {
								r = append(r, v)
							} else {
								r = append(r, zero(st2.Chan.Type().Underlying().(*types.Chan).Elem()))
							}
						}
					}
					return r
				}
			} else if ch.canSend() {
				i.chanSend(ch, fr.get(st.Send))
				r := tuple{idx, false}
				for _, st2 := range instr.States {
					if st2.Dir == types.RecvOnly {
						r = append(r, zero(st2.Chan.Type().Underlying().(*types.Chan).Elem()))
					}
				}
				return r
			}
		}
		if !instr.Blocking {
			r := tuple{-1, false}
			for _, st2 := range instr.States {
				if st2.Dir == types.RecvOnly {
					r = append(r, zero(st2.Chan.Type().Underlying().(*types.Chan).Elem()))
				}
			}
			return r
		}
		i.yield("select")
	}
}

func (i *interpreter) blockForever(why string) {
	for {
		i.yield(why)
	}
}

// ---- scheduler (filled in by sched.go) ----

var _ = fmt.Sprintf
