package interp

// Per-path symbolic state: decision vector, path condition, nondet variables,
// assertion checking. Exploration is stateless: every path is executed from the
// harness entry with a forced decision prefix.

import (
	"fmt"
	"runtime/debug"
	"sort"
)

// engineError is the panic value for "the engine cannot soundly continue on this
// path" (unsupported construct, interpreter bug). The path is reported inconclusive.
type engineError string

// pathEnd is the panic value that terminates a path normally (false Assume,
// infeasible path, violated concrete assertion).
type pathEnd struct{ reason string }

type inconclusive struct {
	msg   string
	stack string
}

func unsupported(format string, args ...interface{}) {
	panic(engineError(fmt.Sprintf(format, args...)))
}

type NondetVar struct {
	Name  string `json:"name"`
	Kind  string `json:"kind"` // bool u8 u16 u32 u64 i8 i16 i32 i64 int uint choose
	Label string `json:"label,omitempty"`
	term  *Term
}

type Violation struct {
	Harness   string            `json:"harness"`
	Label     string            `json:"label"`
	Kind      string            `json:"kind"` // assert | panic
	Values    []ReplayValue     `json:"values"`
	Decisions []int32           `json:"decisions"`
	Detail    string            `json:"detail,omitempty"`
	Covers    []string          `json:"covers,omitempty"`
	Observed  map[string]string `json:"observed,omitempty"`
}

type ReplayValue struct {
	Kind  string `json:"kind"`
	Value uint64 `json:"value"`
	Label string `json:"label,omitempty"`
}

type observation struct {
	label string
	val   value
}

type PathResult struct {
	Prefix       []int32
	Decisions    []int32
	Siblings     [][]int32
	Violations   []*Violation
	Covers       map[string]bool
	Inconclusive []string
	Steps        int64
	Ended        string // "", or reason of pathEnd
	AssertsSeen  map[string]int
	Sample       *PathSample
	Unknowns     int
	NewDecisions int
	Observations []ObsRecord
}

// ObsRecord is one rt.Observe seen on a path together with the path's witness model,
// used for encoder validation against the native build.
type ObsRecord struct {
	Label string
	Val   string // rendering under the witness model
}

type PathSample struct {
	Decisions []int32       `json:"decisions"`
	Values    []ReplayValue `json:"values,omitempty"`
	Asserts   []string      `json:"asserts,omitempty"`
	Covers    []string      `json:"covers,omitempty"`
	Observed  []ObsRecord   `json:"observed,omitempty"`
}

type pathState struct {
	i        *interpreter
	tt       *termTable
	sol      *solver
	prefix   []int32
	dec      []int32
	pc       []*Term
	flushed  int
	vars     []*NondetVar
	covers   map[string]bool
	obs      []observation
	res      *PathResult
	steps    int64
	maxSteps int64
	asserts  []string
	harness  string
	params   map[string]int64
	// model is a full assignment known to satisfy pc when modelOK (missing vars are 0)
	model   map[string]uint64
	modelOK bool
	facts   map[int]bool // term id -> truth value implied by the path condition
}

func newPathState(i *interpreter, prefix []int32, harness string) *pathState {
	ps := &pathState{
		i: i, tt: newTermTable(), sol: i.sol, prefix: prefix, covers: make(map[string]bool),
		harness: harness, maxSteps: i.maxSteps, params: i.params,
	}
	ps.model = map[string]uint64{}
	ps.facts = map[int]bool{}
	ps.modelOK = len(prefix) == 0
	ps.res = &PathResult{Prefix: prefix, Covers: ps.covers, AssertsSeen: make(map[string]int)}
	ps.sol.reset()
	return ps
}

func (ps *pathState) addPC(c *Term) {
	if c.isTrue() {
		return
	}
	ps.pc = append(ps.pc, c)
	ps.learn(c, true)
}

// learn records that c has truth value v on this path.
func (ps *pathState) learn(c *Term, v bool) {
	ps.facts[c.id] = v
	if c.op == "not" {
		ps.learn(c.args[0], !v)
	} else if c.op == "and" && v {
		ps.learn(c.args[0], true)
		ps.learn(c.args[1], true)
	} else if c.op == "or" && !v {
		ps.learn(c.args[0], false)
		ps.learn(c.args[1], false)
	}
}

func (ps *pathState) flush() {
	for ; ps.flushed < len(ps.pc); ps.flushed++ {
		ps.sol.assert(ps.pc[ps.flushed])
	}
}

func (ps *pathState) inPrefix() bool { return len(ps.dec) < len(ps.prefix) }

// branch decides a symbolic condition, forking the exploration when both outcomes
// are feasible. Decision codes: 1/0 = chosen true/false (constraint recorded),
// 3/2 = forced true/false (other side proven unsat).
func (ps *pathState) branch(c *Term) bool {
	if c.isConst() {
		return c.val == 1
	}
	if v, ok := ps.facts[c.id]; ok {
		return v
	}
	if ps.inPrefix() {
		d := ps.prefix[len(ps.dec)]
		ps.dec = append(ps.dec, d)
		ps.modelOK = false
		switch d {
		case 1:
			ps.addPC(c)
			return true
		case 0:
			ps.addPC(ps.tt.Not(c))
			return false
		case 3:
			ps.learn(c, true)
			return true
		default:
			ps.learn(c, false)
			return false
		}
	}
	ps.res.NewDecisions++
	if !ps.ensureModel() {
		panic(pathEnd{"infeasible"})
	}
	// follow the side the current model takes; ask the solver about the other one
	mv := c.eval(ps.model, map[*Term]uint64{}) == 1
	ps.flush()
	other := ps.sol.check(c, mv) // mv true -> query ¬c ; mv false -> query c
	if other == resUnknown {
		ps.res.Unknowns++
	}
	if other != resUnsat {
		sib := make([]int32, len(ps.dec)+1)
		copy(sib, ps.dec)
		if mv {
			sib[len(ps.dec)] = 0
		} else {
			sib[len(ps.dec)] = 1
		}
		ps.res.Siblings = append(ps.res.Siblings, sib)
		if mv {
			ps.dec = append(ps.dec, 1)
			ps.addPC(c)
		} else {
			ps.dec = append(ps.dec, 0)
			ps.addPC(ps.tt.Not(c))
		}
		return mv
	}
	if mv {
		ps.dec = append(ps.dec, 3)
	} else {
		ps.dec = append(ps.dec, 2)
	}
	ps.learn(c, mv)
	return mv
}

// ensureModel makes ps.model a satisfying assignment of the current pc; false if the
// pc is unsatisfiable.
func (ps *pathState) ensureModel() bool {
	if ps.modelOK {
		return true
	}
	ps.flush()
	r := ps.sol.check(nil, false)
	if r == resUnsat {
		return false
	}
	if r == resUnknown {
		ps.res.Unknowns++
		// fall back: no model; evaluate under zeros but keep asking both sides
		ps.res.Inconclusive = append(ps.res.Inconclusive, "solver unknown on path condition")
		return false
	}
	_, m, err := ps.model2()
	if err != nil {
		ps.res.Inconclusive = append(ps.res.Inconclusive, "model extraction failed: "+err.Error())
		return false
	}
	ps.model = m
	ps.modelOK = true
	return true
}

// assume restricts the path; an infeasible assumption ends it.
func (ps *pathState) assume(c *Term) {
	if c.isConst() {
		if c.val == 0 {
			panic(pathEnd{"assume-false"})
		}
		return
	}
	ps.addPC(c)
	if ps.inPrefix() {
		ps.modelOK = false
		return
	}
	if ps.modelOK && c.eval(ps.model, map[*Term]uint64{}) == 1 {
		return
	}
	ps.modelOK = false
	if !ps.ensureModel() {
		panic(pathEnd{"assume-infeasible"})
	}
}

func (ps *pathState) fresh(kind, label string, w int) *Term {
	name := fmt.Sprintf("n%d", len(ps.vars))
	t := ps.tt.Var(name, w)
	ps.vars = append(ps.vars, &NondetVar{Name: name, Kind: kind, Label: label, term: t})
	return t
}

func (ps *pathState) model2() ([]ReplayValue, map[string]uint64, error) {
	var vs []*Term
	for _, v := range ps.vars {
		vs = append(vs, v.term)
	}
	m, err := ps.sol.values(vs)
	if err != nil {
		return nil, nil, err
	}
	out := make([]ReplayValue, len(ps.vars))
	for i, v := range ps.vars {
		out[i] = ReplayValue{Kind: v.Kind, Value: m[v.Name], Label: v.Label}
	}
	return out, m, nil
}

func (ps *pathState) valuesOf(m map[string]uint64) []ReplayValue {
	out := make([]ReplayValue, len(ps.vars))
	for i, v := range ps.vars {
		out[i] = ReplayValue{Kind: v.Kind, Value: m[v.Name] & mask(v.term.w), Label: v.Label}
	}
	return out
}

func (ps *pathState) coverList() []string {
	var l []string
	for c := range ps.covers {
		l = append(l, c)
	}
	sort.Strings(l)
	return l
}

func (ps *pathState) recordViolation(kind, label, detail string, vals []ReplayValue) {
	v := &Violation{Harness: ps.harness, Label: label, Kind: kind, Values: vals,
		Decisions: append([]int32(nil), ps.dec...), Detail: detail, Covers: ps.coverList()}
	ps.res.Violations = append(ps.res.Violations, v)
}

// assert checks pc ∧ ¬c. A sat answer is a counterexample; the path continues under c.
func (ps *pathState) assert(c *Term, label string) {
	ps.res.AssertsSeen[label]++
	ps.asserts = append(ps.asserts, label)
	if c.isTrue() {
		return
	}
	ps.flush()
	if c.isFalse() {
		r := ps.sol.check(nil, false)
		if r == resSat {
			vals, _, err := ps.model2()
			if err != nil {
				ps.res.Inconclusive = append(ps.res.Inconclusive, "model extraction failed: "+err.Error())
			} else {
				ps.recordViolation("assert", label, "condition is concretely false on this path", vals)
			}
		} else if r == resUnknown {
			ps.res.Unknowns++
			ps.res.Inconclusive = append(ps.res.Inconclusive, "solver unknown on assertion "+label)
		}
		panic(pathEnd{"assert-false"})
	}
	if v, ok := ps.facts[c.id]; ok && v {
		return
	}
	if ps.modelOK && c.eval(ps.model, map[*Term]uint64{}) == 0 {
		// the current model is already a counterexample
		ps.recordViolation("assert", label, "", ps.valuesOf(ps.model))
		ps.assume(c)
		return
	}
	r := ps.sol.check(c, true)
	switch r {
	case resSat:
		vals, _, err := ps.model2()
		if err != nil {
			ps.res.Inconclusive = append(ps.res.Inconclusive, "model extraction failed: "+err.Error())
		} else {
			ps.recordViolation("assert", label, "", vals)
		}
	case resUnknown:
		ps.res.Unknowns++
		ps.res.Inconclusive = append(ps.res.Inconclusive, "solver unknown on assertion "+label)
	case resUnsat:
		// implied by the path condition: remember it, no need to assert it
		ps.learn(c, true)
		return
	}
	ps.assume(c)
}

// uncaughtPanic records a panic of the code under test that reached the harness top.
func (ps *pathState) uncaughtPanic(msg string) {
	ps.flush()
	r := ps.sol.check(nil, false)
	if r == resSat {
		vals, _, err := ps.model2()
		if err == nil {
			ps.recordViolation("panic", "uncaught-panic", msg, vals)
			return
		}
	}
	if r == resUnknown {
		ps.res.Unknowns++
	}
	if r != resUnsat {
		ps.res.Inconclusive = append(ps.res.Inconclusive, "uncaught panic, no model: "+msg)
	}
}

// finish computes the witness sample of a completed path.
func (ps *pathState) finish(wantSample bool) {
	ps.res.Decisions = ps.dec
	ps.res.Steps = ps.steps
	if !wantSample {
		return
	}
	if !ps.ensureModel() {
		return
	}
	vals, m := ps.valuesOf(ps.model), ps.model
	s := &PathSample{Decisions: ps.dec, Values: vals, Asserts: ps.asserts, Covers: ps.coverList()}
	for _, o := range ps.obs {
		s.Observed = append(s.Observed, ObsRecord{Label: o.label, Val: renderUnder(o.val, m)})
	}
	ps.res.Sample = s
	ps.res.Observations = s.Observed
}

// RunPath executes the harness entry once under the given decision prefix.
func (i *interpreter) RunPath(entry value, harness string, prefix []int32, wantSample bool) (res *PathResult) {
	ps := newPathState(i, prefix, harness)
	i.ps = ps
	res = ps.res
	defer func() {
		r := recover()
		i.ps = nil
		switch r := r.(type) {
		case nil:
		case pathEnd:
			res.Ended = r.reason
		case engineError:
			res.Inconclusive = append(res.Inconclusive, string(r))
			res.Ended = "inconclusive"
		case targetPanic:
			ps.uncaughtPanic(panicString(i, r))
			res.Ended = "panic"
		default:
			res.Inconclusive = append(res.Inconclusive, fmt.Sprintf("engine panic: %v\n%s", r, debug.Stack()))
			res.Ended = "inconclusive"
		}
		if res.Ended == "harness-end" {
			res.Ended = ""
		}
		if res.Ended == "" || res.Ended == "panic" || res.Ended == "assert-false" {
			func() {
				defer func() {
					if r := recover(); r != nil {
						res.Inconclusive = append(res.Inconclusive, fmt.Sprintf("finish: %v", r))
					}
				}()
				ps.finish(wantSample && res.Ended == "" && len(res.Violations) == 0)
			}()
		} else {
			res.Decisions = ps.dec
			res.Steps = ps.steps
		}
		if len(ps.sol.errors) > 0 {
			res.Inconclusive = append(res.Inconclusive, "solver error: "+ps.sol.errors[0])
			ps.sol.errors = nil
		}
	}()
	call(i, nil, 0, entry, nil)
	return
}

func panicString(i *interpreter, p targetPanic) string {
	defer func() { recover() }()
	if it, ok := p.v.(iface); ok {
		if s, ok := it.v.(string); ok {
			return s
		}
		if it.t != nil {
			return fmt.Sprintf("%s: %s", it.t, toString(it.v))
		}
	}
	return toString(p.v)
}
