// Copyright 2013 The Go Authors. All rights reserved.
// Use of this source code is governed by a BSD-style
// license that can be found in the LICENSE file.

package interp

import (
	"bytes"
	"fmt"
	"go/constant"
	"go/token"
	"go/types"
	"os"
	"strings"
	"unsafe"

	"golang.org/x/tools/go/ssa"
)

// If the target program panics, the interpreter panics with this type.
type targetPanic struct {
	v       value
	runtime bool // a runtime error (nil dereference, bounds, ...) rather than an explicit panic()
}

func (p targetPanic) String() string {
	return toString(p.v)
}

// If the target program calls exit, the interpreter panics with this type.
type exitPanic int

// constValue returns the value of the constant with the
// dynamic type tag appropriate for c.Type().
func constValue(c *ssa.Const) value {
	if c.Value == nil {
		return zero(c.Type()) // typed zero
	}
	// c is not a type parameter so it's underlying type is basic.

	if t, ok := c.Type().Underlying().(*types.Basic); ok {
		// TODO(adonovan): eliminate untyped constants from SSA form.
		switch t.Kind() {
		case types.Bool, types.UntypedBool:
			return constant.BoolVal(c.Value)
		case types.Int, types.UntypedInt:
			// Assume sizeof(int) is same on host and target.
			return int(c.Int64())
		case types.Int8:
			return int8(c.Int64())
		case types.Int16:
			return int16(c.Int64())
		case types.Int32, types.UntypedRune:
			return int32(c.Int64())
		case types.Int64:
			return c.Int64()
		case types.Uint:
			// Assume sizeof(uint) is same on host and target.
			return uint(c.Uint64())
		case types.Uint8:
			return uint8(c.Uint64())
		case types.Uint16:
			return uint16(c.Uint64())
		case types.Uint32:
			return uint32(c.Uint64())
		case types.Uint64:
			return c.Uint64()
		case types.Uintptr:
			// Assume sizeof(uintptr) is same on host and target.
			return uintptr(c.Uint64())
		case types.Float32:
			return float32(c.Float64())
		case types.Float64, types.UntypedFloat:
			return c.Float64()
		case types.Complex64:
			return complex64(c.Complex128())
		case types.Complex128, types.UntypedComplex:
			return c.Complex128()
		case types.String, types.UntypedString:
			if c.Value.Kind() == constant.String {
				return constant.StringVal(c.Value)
			}
			return string(rune(c.Int64()))
		}
	}

	panic(fmt.Sprintf("constValue: %s", c))
}

// fitsInt returns true if x fits in type int according to sizes.
func fitsInt(x int64, sizes types.Sizes) bool {
	intSize := sizes.Sizeof(types.Typ[types.Int])
	if intSize < sizes.Sizeof(types.Typ[types.Int64]) {
		maxInt := int64(1)<<((intSize*8)-1) - 1
		minInt := -int64(1) << ((intSize * 8) - 1)
		return minInt <= x && x <= maxInt
	}
	return true
}

// asInt64 converts x, which must be an integer, to an int64.
//
// Callers that need a value directly usable as an int should combine this with fitsInt().
func asInt64(x value) int64 {
	switch x := x.(type) {
	case int:
		return int64(x)
	case int8:
		return int64(x)
	case int16:
		return int64(x)
	case int32:
		return int64(x)
	case int64:
		return x
	case uint:
		return int64(x)
	case uint8:
		return int64(x)
	case uint16:
		return int64(x)
	case uint32:
		return int64(x)
	case uint64:
		return int64(x)
	case uintptr:
		return int64(x)
	}
	panic(fmt.Sprintf("cannot convert %T to int64", x))
}

// asUint64 converts x, which must be an unsigned integer, to a uint64
// suitable for use as a bitwise shift count.
func asUint64(x value) uint64 {
	switch x := x.(type) {
	case uint:
		return uint64(x)
	case uint8:
		return uint64(x)
	case uint16:
		return uint64(x)
	case uint32:
		return uint64(x)
	case uint64:
		return x
	case uintptr:
		return uint64(x)
	}
	panic(fmt.Sprintf("cannot convert %T to uint64", x))
}

// asUnsigned returns the value of x, which must be an integer type, as its equivalent unsigned type,
// and returns true if x is non-negative.
func asUnsigned(x value) (value, bool) {
	switch x := x.(type) {
	case int:
		return uint(x), x >= 0
	case int8:
		return uint8(x), x >= 0
	case int16:
		return uint16(x), x >= 0
	case int32:
		return uint32(x), x >= 0
	case int64:
		return uint64(x), x >= 0
	case uint, uint8, uint32, uint64, uintptr:
		return x, true
	}
	panic(fmt.Sprintf("cannot convert %T to unsigned", x))
}

// zero returns a new "zero" value of the specified type.
func zero(t types.Type) value {
	switch t := t.(type) {
	case *types.Basic:
		if t.Kind() == types.UntypedNil {
			panic("untyped nil has no zero value")
		}
		if t.Info()&types.IsUntyped != 0 {
			// TODO(adonovan): make it an invariant that
			// this is unreachable.  Currently some
			// constants have 'untyped' types when they
			// should be defaulted by the typechecker.
			t = types.Default(t).(*types.Basic)
		}
		switch t.Kind() {
		case types.Bool:
			return false
		case types.Int:
			return int(0)
		case types.Int8:
			return int8(0)
		case types.Int16:
			return int16(0)
		case types.Int32:
			return int32(0)
		case types.Int64:
			return int64(0)
		case types.Uint:
			return uint(0)
		case types.Uint8:
			return uint8(0)
		case types.Uint16:
			return uint16(0)
		case types.Uint32:
			return uint32(0)
		case types.Uint64:
			return uint64(0)
		case types.Uintptr:
			return uintptr(0)
		case types.Float32:
			return float32(0)
		case types.Float64:
			return float64(0)
		case types.Complex64:
			return complex64(0)
		case types.Complex128:
			return complex128(0)
		case types.String:
			return ""
		case types.UnsafePointer:
			return unsafe.Pointer(nil)
		default:
			panic(fmt.Sprint("zero for unexpected type:", t))
		}
	case *types.Pointer:
		return (*value)(nil)
	case *types.Array:
		a := make(array, t.Len())
		for i := range a {
			a[i] = zero(t.Elem())
		}
		return a
	case *types.Named:
		return zero(t.Underlying())
	case *types.Alias:
		return zero(types.Unalias(t))
	case *types.Interface:
		return iface{} // nil type, methodset and value
	case *types.Slice:
		return []value(nil)
	case *types.Struct:
		s := make(structure, t.NumFields())
		for i := range s {
			s[i] = zero(t.Field(i).Type())
		}
		return s
	case *types.Tuple:
		if t.Len() == 1 {
			return zero(t.At(0).Type())
		}
		s := make(tuple, t.Len())
		for i := range s {
			s[i] = zero(t.At(i).Type())
		}
		return s
	case *types.Chan:
		return (*chanv)(nil)
	case *types.Map:
		return (*omap)(nil)
	case *types.Signature:
		return (*ssa.Function)(nil)
	}
	panic(fmt.Sprint("zero: unexpected ", t))
}

// slice returns x[lo:hi:max].  Any of lo, hi and max may be nil.
func slice(i *interpreter, x, lo, hi, max value) value {
	var Len, Cap int
	switch x := x.(type) {
	case string:
		Len = len(x)
		Cap = Len
	case symstr:
		if seqHasDec(x.b) {
			return i.sliceDec(x, lo, hi, max)
		}
		Len = len(x.b)
		Cap = Len
	case []value:
		Len = len(x)
		Cap = cap(x)
	case *value: // *array
		if x == nil {
			runtimePanic(i, "invalid memory address or nil pointer dereference")
		}
		a := (*x).(array)
		Len = len(a)
		Cap = cap(a)
	}

	l := int64(0)
	if lo != nil {
		l = i.concretizeInt(lo, 0, int64(Cap), "slice low")
	}

	h := int64(Len)
	if hi != nil {
		h = i.concretizeInt(hi, 0, int64(Cap), "slice high")
	}

	m := int64(Cap)
	if max != nil {
		m = i.concretizeInt(max, 0, int64(Cap), "slice max")
	}
	if l < 0 || h < l || m < h || m > int64(Cap) {
		runtimePanic(i, fmt.Sprintf("slice bounds out of range [%d:%d:%d] with capacity %d", l, h, m, Cap))
	}

	switch x := x.(type) {
	case string:
		return x[l:h]
	case symstr:
		return mkstr(x.b[l:h])
	case []value:
		return x[l:h:m]
	case *value: // *array
		a := (*x).(array)
		return []value(a)[l:h:m]
	}
	panic(fmt.Sprintf("slice: unexpected X type: %T", x))
}

// sliceDec slices a string with decimal segments at concrete offsets inside its
// leading concrete part (s[l:], s[:h], s[l:h] with h before the first segment).
func (i *interpreter) sliceDec(x symstr, lo, hi, max value) value {
	lead := leadingConcrete(x.b)
	l := int64(0)
	if lo != nil {
		if _, ok := lo.(sym); ok {
			panic(engineError("symbolic slice bound on a string with a decimal segment"))
		}
		l = asInt64(lo)
	}
	if l < 0 || l > int64(lead) {
		panic(engineError("slice bound inside or after a decimal segment"))
	}
	if hi == nil {
		return mkstr(x.b[l:])
	}
	if _, ok := hi.(sym); ok {
		panic(engineError("symbolic slice bound on a string with a decimal segment"))
	}
	h := asInt64(hi)
	if h < l || h > int64(lead) {
		panic(engineError("slice bound inside or after a decimal segment"))
	}
	return mkstr(x.b[l:h])
}

// index checks idx against n (forking over feasible positions when symbolic).
func (i *interpreter) index(idx value, n int) int {
	var v int64
	if _, ok := idx.(sym); ok {
		v = i.concretizeInt(idx, 0, int64(n)-1, "index")
		if v >= int64(n) {
			v = -1
		}
	} else {
		v = asInt64(idx)
	}
	if v < 0 || v >= int64(n) {
		runtimePanic(i, fmt.Sprintf("index out of range [%d] with length %d", v, n))
	}
	return int(v)
}

// lookup returns x[idx] where x is a map.
func lookup(i *interpreter, instr *ssa.Lookup, x, idx value) value {
	switch x := x.(type) { // map or string
	case *omap:
		v, ok := x.lookup(i, idx)
		if !ok {
			v = zero(instr.X.Type().Underlying().(*types.Map).Elem())
		}
		if instr.CommaOk {
			v = tuple{v, ok}
		}
		return v
	}
	panic(fmt.Sprintf("unexpected x type in Lookup: %T", x))
}

// binop implements all arithmetic and logical binary operators for
// numeric datatypes and strings.  Both operands must have identical
// dynamic type.
func binop(i *interpreter, op token.Token, t types.Type, x, y value) value {
	if isSym(x) || isSym(y) {
		return i.symBinop(op, x, y)
	}
	if _, ok := x.(symstr); ok {
		return i.strBinop(op, x, y)
	}
	if _, ok := y.(symstr); ok {
		if isStr(x) {
			return i.strBinop(op, x, y)
		}
	}
	switch op {
	case token.ADD:
		switch x.(type) {
		case int:
			return x.(int) + y.(int)
		case int8:
			return x.(int8) + y.(int8)
		case int16:
			return x.(int16) + y.(int16)
		case int32:
			return x.(int32) + y.(int32)
		case int64:
			return x.(int64) + y.(int64)
		case uint:
			return x.(uint) + y.(uint)
		case uint8:
			return x.(uint8) + y.(uint8)
		case uint16:
			return x.(uint16) + y.(uint16)
		case uint32:
			return x.(uint32) + y.(uint32)
		case uint64:
			return x.(uint64) + y.(uint64)
		case uintptr:
			return x.(uintptr) + y.(uintptr)
		case float32:
			return x.(float32) + y.(float32)
		case float64:
			return x.(float64) + y.(float64)
		case complex64:
			return x.(complex64) + y.(complex64)
		case complex128:
			return x.(complex128) + y.(complex128)
		case string:
			return x.(string) + y.(string)
		}

	case token.SUB:
		switch x.(type) {
		case int:
			return x.(int) - y.(int)
		case int8:
			return x.(int8) - y.(int8)
		case int16:
			return x.(int16) - y.(int16)
		case int32:
			return x.(int32) - y.(int32)
		case int64:
			return x.(int64) - y.(int64)
		case uint:
			return x.(uint) - y.(uint)
		case uint8:
			return x.(uint8) - y.(uint8)
		case uint16:
			return x.(uint16) - y.(uint16)
		case uint32:
			return x.(uint32) - y.(uint32)
		case uint64:
			return x.(uint64) - y.(uint64)
		case uintptr:
			return x.(uintptr) - y.(uintptr)
		case float32:
			return x.(float32) - y.(float32)
		case float64:
			return x.(float64) - y.(float64)
		case complex64:
			return x.(complex64) - y.(complex64)
		case complex128:
			return x.(complex128) - y.(complex128)
		}

	case token.MUL:
		switch x.(type) {
		case int:
			return x.(int) * y.(int)
		case int8:
			return x.(int8) * y.(int8)
		case int16:
			return x.(int16) * y.(int16)
		case int32:
			return x.(int32) * y.(int32)
		case int64:
			return x.(int64) * y.(int64)
		case uint:
			return x.(uint) * y.(uint)
		case uint8:
			return x.(uint8) * y.(uint8)
		case uint16:
			return x.(uint16) * y.(uint16)
		case uint32:
			return x.(uint32) * y.(uint32)
		case uint64:
			return x.(uint64) * y.(uint64)
		case uintptr:
			return x.(uintptr) * y.(uintptr)
		case float32:
			return x.(float32) * y.(float32)
		case float64:
			return x.(float64) * y.(float64)
		case complex64:
			return x.(complex64) * y.(complex64)
		case complex128:
			return x.(complex128) * y.(complex128)
		}

	case token.QUO:
		switch x.(type) {
		case int:
			return x.(int) / y.(int)
		case int8:
			return x.(int8) / y.(int8)
		case int16:
			return x.(int16) / y.(int16)
		case int32:
			return x.(int32) / y.(int32)
		case int64:
			return x.(int64) / y.(int64)
		case uint:
			return x.(uint) / y.(uint)
		case uint8:
			return x.(uint8) / y.(uint8)
		case uint16:
			return x.(uint16) / y.(uint16)
		case uint32:
			return x.(uint32) / y.(uint32)
		case uint64:
			return x.(uint64) / y.(uint64)
		case uintptr:
			return x.(uintptr) / y.(uintptr)
		case float32:
			return x.(float32) / y.(float32)
		case float64:
			return x.(float64) / y.(float64)
		case complex64:
			return x.(complex64) / y.(complex64)
		case complex128:
			return x.(complex128) / y.(complex128)
		}

	case token.REM:
		switch x.(type) {
		case int:
			return x.(int) % y.(int)
		case int8:
			return x.(int8) % y.(int8)
		case int16:
			return x.(int16) % y.(int16)
		case int32:
			return x.(int32) % y.(int32)
		case int64:
			return x.(int64) % y.(int64)
		case uint:
			return x.(uint) % y.(uint)
		case uint8:
			return x.(uint8) % y.(uint8)
		case uint16:
			return x.(uint16) % y.(uint16)
		case uint32:
			return x.(uint32) % y.(uint32)
		case uint64:
			return x.(uint64) % y.(uint64)
		case uintptr:
			return x.(uintptr) % y.(uintptr)
		}

	case token.AND:
		switch x.(type) {
		case int:
			return x.(int) & y.(int)
		case int8:
			return x.(int8) & y.(int8)
		case int16:
			return x.(int16) & y.(int16)
		case int32:
			return x.(int32) & y.(int32)
		case int64:
			return x.(int64) & y.(int64)
		case uint:
			return x.(uint) & y.(uint)
		case uint8:
			return x.(uint8) & y.(uint8)
		case uint16:
			return x.(uint16) & y.(uint16)
		case uint32:
			return x.(uint32) & y.(uint32)
		case uint64:
			return x.(uint64) & y.(uint64)
		case uintptr:
			return x.(uintptr) & y.(uintptr)
		}

	case token.OR:
		switch x.(type) {
		case int:
			return x.(int) | y.(int)
		case int8:
			return x.(int8) | y.(int8)
		case int16:
			return x.(int16) | y.(int16)
		case int32:
			return x.(int32) | y.(int32)
		case int64:
			return x.(int64) | y.(int64)
		case uint:
			return x.(uint) | y.(uint)
		case uint8:
			return x.(uint8) | y.(uint8)
		case uint16:
			return x.(uint16) | y.(uint16)
		case uint32:
			return x.(uint32) | y.(uint32)
		case uint64:
			return x.(uint64) | y.(uint64)
		case uintptr:
			return x.(uintptr) | y.(uintptr)
		}

	case token.XOR:
		switch x.(type) {
		case int:
			return x.(int) ^ y.(int)
		case int8:
			return x.(int8) ^ y.(int8)
		case int16:
			return x.(int16) ^ y.(int16)
		case int32:
			return x.(int32) ^ y.(int32)
		case int64:
			return x.(int64) ^ y.(int64)
		case uint:
			return x.(uint) ^ y.(uint)
		case uint8:
			return x.(uint8) ^ y.(uint8)
		case uint16:
			return x.(uint16) ^ y.(uint16)
		case uint32:
			return x.(uint32) ^ y.(uint32)
		case uint64:
			return x.(uint64) ^ y.(uint64)
		case uintptr:
			return x.(uintptr) ^ y.(uintptr)
		}

	case token.AND_NOT:
		switch x.(type) {
		case int:
			return x.(int) &^ y.(int)
		case int8:
			return x.(int8) &^ y.(int8)
		case int16:
			return x.(int16) &^ y.(int16)
		case int32:
			return x.(int32) &^ y.(int32)
		case int64:
			return x.(int64) &^ y.(int64)
		case uint:
			return x.(uint) &^ y.(uint)
		case uint8:
			return x.(uint8) &^ y.(uint8)
		case uint16:
			return x.(uint16) &^ y.(uint16)
		case uint32:
			return x.(uint32) &^ y.(uint32)
		case uint64:
			return x.(uint64) &^ y.(uint64)
		case uintptr:
			return x.(uintptr) &^ y.(uintptr)
		}

	case token.SHL:
		u, ok := asUnsigned(y)
		if !ok {
			panic("negative shift amount")
		}
		y := asUint64(u)
		switch x.(type) {
		case int:
			return x.(int) << y
		case int8:
			return x.(int8) << y
		case int16:
			return x.(int16) << y
		case int32:
			return x.(int32) << y
		case int64:
			return x.(int64) << y
		case uint:
			return x.(uint) << y
		case uint8:
			return x.(uint8) << y
		case uint16:
			return x.(uint16) << y
		case uint32:
			return x.(uint32) << y
		case uint64:
			return x.(uint64) << y
		case uintptr:
			return x.(uintptr) << y
		}

	case token.SHR:
		u, ok := asUnsigned(y)
		if !ok {
			panic("negative shift amount")
		}
		y := asUint64(u)
		switch x.(type) {
		case int:
			return x.(int) >> y
		case int8:
			return x.(int8) >> y
		case int16:
			return x.(int16) >> y
		case int32:
			return x.(int32) >> y
		case int64:
			return x.(int64) >> y
		case uint:
			return x.(uint) >> y
		case uint8:
			return x.(uint8) >> y
		case uint16:
			return x.(uint16) >> y
		case uint32:
			return x.(uint32) >> y
		case uint64:
			return x.(uint64) >> y
		case uintptr:
			return x.(uintptr) >> y
		}

	case token.LSS:
		switch x.(type) {
		case int:
			return x.(int) < y.(int)
		case int8:
			return x.(int8) < y.(int8)
		case int16:
			return x.(int16) < y.(int16)
		case int32:
			return x.(int32) < y.(int32)
		case int64:
			return x.(int64) < y.(int64)
		case uint:
			return x.(uint) < y.(uint)
		case uint8:
			return x.(uint8) < y.(uint8)
		case uint16:
			return x.(uint16) < y.(uint16)
		case uint32:
			return x.(uint32) < y.(uint32)
		case uint64:
			return x.(uint64) < y.(uint64)
		case uintptr:
			return x.(uintptr) < y.(uintptr)
		case float32:
			return x.(float32) < y.(float32)
		case float64:
			return x.(float64) < y.(float64)
		case string:
			return x.(string) < y.(string)
		}

	case token.LEQ:
		switch x.(type) {
		case int:
			return x.(int) <= y.(int)
		case int8:
			return x.(int8) <= y.(int8)
		case int16:
			return x.(int16) <= y.(int16)
		case int32:
			return x.(int32) <= y.(int32)
		case int64:
			return x.(int64) <= y.(int64)
		case uint:
			return x.(uint) <= y.(uint)
		case uint8:
			return x.(uint8) <= y.(uint8)
		case uint16:
			return x.(uint16) <= y.(uint16)
		case uint32:
			return x.(uint32) <= y.(uint32)
		case uint64:
			return x.(uint64) <= y.(uint64)
		case uintptr:
			return x.(uintptr) <= y.(uintptr)
		case float32:
			return x.(float32) <= y.(float32)
		case float64:
			return x.(float64) <= y.(float64)
		case string:
			return x.(string) <= y.(string)
		}

	case token.EQL:
		return eqnil(i, t, x, y)

	case token.NEQ:
		return i.vNot(eqnil(i, t, x, y))

	case token.GTR:
		switch x.(type) {
		case int:
			return x.(int) > y.(int)
		case int8:
			return x.(int8) > y.(int8)
		case int16:
			return x.(int16) > y.(int16)
		case int32:
			return x.(int32) > y.(int32)
		case int64:
			return x.(int64) > y.(int64)
		case uint:
			return x.(uint) > y.(uint)
		case uint8:
			return x.(uint8) > y.(uint8)
		case uint16:
			return x.(uint16) > y.(uint16)
		case uint32:
			return x.(uint32) > y.(uint32)
		case uint64:
			return x.(uint64) > y.(uint64)
		case uintptr:
			return x.(uintptr) > y.(uintptr)
		case float32:
			return x.(float32) > y.(float32)
		case float64:
			return x.(float64) > y.(float64)
		case string:
			return x.(string) > y.(string)
		}

	case token.GEQ:
		switch x.(type) {
		case int:
			return x.(int) >= y.(int)
		case int8:
			return x.(int8) >= y.(int8)
		case int16:
			return x.(int16) >= y.(int16)
		case int32:
			return x.(int32) >= y.(int32)
		case int64:
			return x.(int64) >= y.(int64)
		case uint:
			return x.(uint) >= y.(uint)
		case uint8:
			return x.(uint8) >= y.(uint8)
		case uint16:
			return x.(uint16) >= y.(uint16)
		case uint32:
			return x.(uint32) >= y.(uint32)
		case uint64:
			return x.(uint64) >= y.(uint64)
		case uintptr:
			return x.(uintptr) >= y.(uintptr)
		case float32:
			return x.(float32) >= y.(float32)
		case float64:
			return x.(float64) >= y.(float64)
		case string:
			return x.(string) >= y.(string)
		}
	}
	panic(fmt.Sprintf("invalid binary op: %T %s %T", x, op, y))
}

// eqnil returns the comparison x == y using the equivalence relation
// appropriate for type t.
// If t is a reference type, at most one of x or y may be a nil value
// of that type.
func eqnil(i *interpreter, t types.Type, x, y value) value {
	switch t.Underlying().(type) {
	case *types.Map, *types.Signature, *types.Slice:
		// Since these types don't support comparison,
		// one of the operands must be a literal nil.
		switch x := x.(type) {
		case *omap:
			return (x != nil) == (y.(*omap) != nil)
		case *ssa.Function:
			switch y := y.(type) {
			case *ssa.Function:
				return (x != nil) == (y != nil)
			case *closure:
				return true
			}
		case *closure:
			return (x != nil) == (y.(*ssa.Function) != nil)
		case []value:
			return (x != nil) == (y.([]value) != nil)
		}
		panic(fmt.Sprintf("eqnil(%s): illegal dynamic type: %T", t, x))
	}

	return eqv(i, t, x, y)
}

func unop(i *interpreter, instr *ssa.UnOp, x value) value {
	if sx, ok := x.(sym); ok {
		return i.symUnop(instr.Op, sx)
	}
	switch instr.Op {
	case token.ARROW: // receive
		v, ok := i.chanRecv(x, instr.X.Type().Underlying().(*types.Chan).Elem())
		if instr.CommaOk {
			v = tuple{v, ok}
		}
		return v
	case token.SUB:
		switch x := x.(type) {
		case int:
			return -x
		case int8:
			return -x
		case int16:
			return -x
		case int32:
			return -x
		case int64:
			return -x
		case uint:
			return -x
		case uint8:
			return -x
		case uint16:
			return -x
		case uint32:
			return -x
		case uint64:
			return -x
		case uintptr:
			return -x
		case float32:
			return -x
		case float64:
			return -x
		case complex64:
			return -x
		case complex128:
			return -x
		}
	case token.MUL:
		if sp, ok := x.(*symPtr); ok {
			return i.loadSymPtr(sp)
		}
		p := x.(*value)
		if p == nil {
			runtimePanic(i, "invalid memory address or nil pointer dereference")
		}
		return load(mustDeref(instr.X.Type()), p)
	case token.NOT:
		return !x.(bool)
	case token.XOR:
		switch x := x.(type) {
		case int:
			return ^x
		case int8:
			return ^x
		case int16:
			return ^x
		case int32:
			return ^x
		case int64:
			return ^x
		case uint:
			return ^x
		case uint8:
			return ^x
		case uint16:
			return ^x
		case uint32:
			return ^x
		case uint64:
			return ^x
		case uintptr:
			return ^x
		}
	}
	panic(fmt.Sprintf("invalid unary op %s %T", instr.Op, x))
}

// typeAssert checks whether dynamic type of itf is instr.AssertedType.
// It returns the extracted value on success, and panics on failure,
// unless instr.CommaOk, in which case it always returns a "value,ok" tuple.
func typeAssert(i *interpreter, instr *ssa.TypeAssert, itf iface) value {
	var v value
	err := ""
	if itf.t == nil {
		err = fmt.Sprintf("interface conversion: interface is nil, not %s", instr.AssertedType)

	} else if idst, ok := instr.AssertedType.Underlying().(*types.Interface); ok {
		v = itf
		err = checkInterface(i, idst, itf)

	} else if types.Identical(itf.t, instr.AssertedType) {
		v = itf.v // extract value

	} else {
		err = fmt.Sprintf("interface conversion: interface is %s, not %s", itf.t, instr.AssertedType)
	}
	// Note: if instr.Underlying==true ever becomes reachable from interp check that
	// types.Identical(itf.t.Underlying(), instr.AssertedType)

	if err != "" {
		if !instr.CommaOk {
			runtimePanic(i, err)
		}
		return tuple{zero(instr.AssertedType), false}
	}
	if instr.CommaOk {
		return tuple{v, true}
	}
	return v
}

// This variable is no longer used but remains to prevent build breakage.
var CapturedOutput *bytes.Buffer

// callBuiltin interprets a call to builtin fn with arguments args,
// returning its result.
func callBuiltin(caller *frame, callpos token.Pos, fn *ssa.Builtin, args []value) value {
	switch fn.Name() {
	case "append":
		if len(args) == 1 {
			return args[0]
		}
		if isStr(args[1]) {
			// append([]byte, ...string) []byte
			arg0 := args[0].([]value)
			return appendValues(arg0, strBytes(args[1]))
		}
		// append([]T, ...[]T) []T
		return appendValues(args[0].([]value), args[1].([]value))

	case "copy": // copy([]T, []T) int or copy([]byte, string) int
		src := args[1]
		if isStr(src) {
			src = strBytes(src)
		}
		return copy(args[0].([]value), src.([]value))

	case "close": // close(chan T)
		caller.i.chanClose(args[0])
		return nil

	case "delete": // delete(map[K]value, K)
		switch m := args[0].(type) {
		case *omap:
			m.delete(caller.i, args[1])
		default:
			panic(fmt.Sprintf("illegal map type: %T", m))
		}
		return nil

	case "print", "println": // print(any, ...)
		ln := fn.Name() == "println"
		var buf bytes.Buffer
		for i, arg := range args {
			if i > 0 && ln {
				buf.WriteRune(' ')
			}
			buf.WriteString(toString(arg))
		}
		if ln {
			buf.WriteRune('\n')
		}
		os.Stderr.Write(buf.Bytes())
		return nil

	case "len":
		switch x := args[0].(type) {
		case string:
			return len(x)
		case symstr:
			if seqHasDec(x.b) {
				return caller.i.symLen(x)
			}
			return len(x.b)
		case array:
			return len(x)
		case *value:
			return len((*x).(array))
		case []value:
			return len(x)
		case *omap:
			return x.len()
		case *chanv:
			return x.length()
		default:
			panic(fmt.Sprintf("len: illegal operand: %T", x))
		}

	case "cap":
		switch x := args[0].(type) {
		case array:
			return cap(x)
		case *value:
			return cap((*x).(array))
		case []value:
			return cap(x)
		case *chanv:
			return x.capacity()
		default:
			panic(fmt.Sprintf("cap: illegal operand: %T", x))
		}

	case "min":
		return foldLeft(func(a, b value) value { return vmin(caller.i, a, b) }, args)
	case "max":
		return foldLeft(func(a, b value) value { return vmax(caller.i, a, b) }, args)

	case "real":
		switch c := args[0].(type) {
		case complex64:
			return real(c)
		case complex128:
			return real(c)
		default:
			panic(fmt.Sprintf("real: illegal operand: %T", c))
		}

	case "imag":
		switch c := args[0].(type) {
		case complex64:
			return imag(c)
		case complex128:
			return imag(c)
		default:
			panic(fmt.Sprintf("imag: illegal operand: %T", c))
		}

	case "complex":
		switch f := args[0].(type) {
		case float32:
			return complex(f, args[1].(float32))
		case float64:
			return complex(f, args[1].(float64))
		default:
			panic(fmt.Sprintf("complex: illegal operand: %T", f))
		}

	case "panic":
		// ssa.Panic handles most cases; this is only for "go
		// panic" or "defer panic".
		panic(targetPanic{v: args[0]})

	case "recover":
		return doRecover(caller)

	case "ssa:wrapnilchk":
		recv := args[0]
		if recv.(*value) == nil {
			recvType := args[1]
			methodName := args[2]
			runtimePanic(caller.i, fmt.Sprintf("value method (%s).%s called using nil *%s pointer",
				recvType, methodName, recvType))
		}
		return recv

	case "ssa:deferstack":
		return &caller.defers
	}

	panic(engineError("unsupported built-in: " + fn.Name()))
}

func rangeIter(fr *frame, x value, t types.Type) iter {
	switch x := x.(type) {
	case *omap:
		return x.iter(fr.i)
	case string:
		return &stringIter{Reader: strings.NewReader(x)}
	case symstr:
		return &symstrIter{fr: fr, s: x}
	}
	panic(fmt.Sprintf("cannot range over %T", x))
}

// appendValues appends with the growth policy of the real runtime so that aliasing
// through spare capacity behaves as in the native build.
func appendValues(dst, src []value) []value {
	if len(src) == 0 {
		return dst
	}
	need := len(dst) + len(src)
	if need <= cap(dst) {
		return append(dst, src...)
	}
	// ask the real runtime for the capacity it would choose for a pointer-sized element
	probe := make([]uintptr, len(dst), cap(dst))
	probe = append(probe, make([]uintptr, len(src))...)
	out := make([]value, len(dst), cap(probe))
	copy(out, dst)
	return append(out, src...)
}

// widen widens a basic typed value x to the widest type of its
// category, one of:
//
//	bool, int64, uint64, float64, complex128, string.
//
// This is inefficient but reduces the size of the cross-product of
// cases we have to consider.
func widen(x value) value {
	switch y := x.(type) {
	case bool, int64, uint64, float64, complex128, string, unsafe.Pointer:
		return x
	case int:
		return int64(y)
	case int8:
		return int64(y)
	case int16:
		return int64(y)
	case int32:
		return int64(y)
	case uint:
		return uint64(y)
	case uint8:
		return uint64(y)
	case uint16:
		return uint64(y)
	case uint32:
		return uint64(y)
	case uintptr:
		return uint64(y)
	case float32:
		return float64(y)
	case complex64:
		return complex128(y)
	}
	panic(fmt.Sprintf("cannot widen %T", x))
}

// conv converts the value x of type t_src to type t_dst and returns
// the result.
// Possible cases are described with the ssa.Convert operator.
func conv(i *interpreter, t_dst, t_src types.Type, x value) value {
	ut_src := t_src.Underlying()
	ut_dst := t_dst.Underlying()

	// Destination type is not an "untyped" type.
	if b, ok := ut_dst.(*types.Basic); ok && b.Info()&types.IsUntyped != 0 {
		panic("oops: conversion to 'untyped' type: " + b.String())
	}

	// Nor is it an interface type.
	if _, ok := ut_dst.(*types.Interface); ok {
		if _, ok := ut_src.(*types.Interface); ok {
			panic("oops: Convert should be ChangeInterface")
		} else {
			panic("oops: Convert should be MakeInterface")
		}
	}

	// Remaining conversions:
	//    + untyped string/number/bool constant to a specific
	//      representation.
	//    + conversions between non-complex numeric types.
	//    + conversions between complex numeric types.
	//    + integer/[]byte/[]rune -> string.
	//    + string -> []byte/[]rune.
	//
	// All are treated the same: first we extract the value to the
	// widest representation (int64, uint64, float64, complex128,
	// or string), then we convert it to the desired type.

	if sx, ok := x.(sym); ok {
		if b, ok := ut_dst.(*types.Basic); ok {
			if b.Kind() == types.String {
				r32 := i.symConv(types.Int32, sx)
				if rs, ok := r32.(sym); ok {
					return mkstr(i.encodeRuneSym(rs))
				}
				return string(r32.(int32))
			}
			return i.symConv(b.Kind(), sx)
		}
		panic(engineError(fmt.Sprintf("conversion of symbolic value to %s", t_dst)))
	}
	if sx, ok := x.(symstr); ok {
		switch ut_dst := ut_dst.(type) {
		case *types.Basic:
			if ut_dst.Kind() == types.String {
				return sx
			}
		case *types.Slice:
			switch ut_dst.Elem().Underlying().(*types.Basic).Kind() {
			case types.Byte:
				return strBytes(sx)
			case types.Rune:
				return i.symstrRunes(sx)
			}
		}
		panic(engineError(fmt.Sprintf("conversion of symbolic string to %s", t_dst)))
	}

	switch ut_src := ut_src.(type) {
	case *types.Pointer:
		switch ut_dst := ut_dst.(type) {
		case *types.Basic:
			// *value to unsafe.Pointer?
			if ut_dst.Kind() == types.UnsafePointer {
				return unsafe.Pointer(x.(*value))
			}
		}

	case *types.Slice:
		// []byte or []rune -> string
		switch ut_src.Elem().Underlying().(*types.Basic).Kind() {
		case types.Byte:
			return mkstr(x.([]value))

		case types.Rune:
			x := x.([]value)
			var out []value
			for j := range x {
				switch rv := x[j].(type) {
				case rune:
					out = append(out, strBytes(string(rv))...)
				case sym:
					out = append(out, i.encodeRuneSym(rv)...)
				default:
					panic(engineError("[]rune element of unexpected type"))
				}
			}
			return mkstr(out)
		}

	case *types.Basic:
		x = widen(x)

		// integer -> string?
		if ut_src.Info()&types.IsInteger != 0 {
			if ut_dst, ok := ut_dst.(*types.Basic); ok && ut_dst.Kind() == types.String {
				return fmt.Sprintf("%c", x)
			}
		}

		// string -> []rune, []byte or string?
		if s, ok := x.(string); ok {
			switch ut_dst := ut_dst.(type) {
			case *types.Slice:
				var res []value
				switch ut_dst.Elem().Underlying().(*types.Basic).Kind() {
				case types.Rune:
					for _, r := range []rune(s) {
						res = append(res, r)
					}
					return res
				case types.Byte:
					for _, b := range []byte(s) {
						res = append(res, b)
					}
					return res
				}
			case *types.Basic:
				if ut_dst.Kind() == types.String {
					return x.(string)
				}
			}
			break // fail: no other conversions for string
		}

		// unsafe.Pointer -> *value
		if ut_src.Kind() == types.UnsafePointer {
			// TODO(adonovan): this is wrong and cannot
			// really be fixed with the current design.
			//
			// return (*value)(x.(unsafe.Pointer))
			// creates a new pointer of a different
			// type but the underlying interface value
			// knows its "true" type and so cannot be
			// meaningfully used through the new pointer.
			//
			// To make this work, the interpreter needs to
			// simulate the memory layout of a real
			// compiled implementation.
			//
			// gobmc: the round trip *T -> unsafe.Pointer -> *T (sync/atomic.Pointer[T],
			// sync.Map, atomic.Value) must give the same cell back: returning nil here
			// silently loses whatever was stored behind such a pointer. A conversion to
			// another pointer type than the original one is type punning, which the boxed
			// model cannot represent; the cell then holds a value of another shape and a
			// later use stops the path with an engine error (reported as inconclusive),
			// never with a wrong answer taken for a result.
			if _, ok := ut_dst.(*types.Pointer); ok {
				if up, ok := x.(unsafe.Pointer); ok && up != nil {
					return (*value)(up)
				}
			}
			return zero(t_dst)
		}

		// Conversions between complex numeric types?
		if ut_src.Info()&types.IsComplex != 0 {
			switch ut_dst.(*types.Basic).Kind() {
			case types.Complex64:
				return complex64(x.(complex128))
			case types.Complex128:
				return x.(complex128)
			}
			break // fail: no other conversions for complex
		}

		// Conversions between non-complex numeric types?
		if ut_src.Info()&types.IsNumeric != 0 {
			kind := ut_dst.(*types.Basic).Kind()
			switch x := x.(type) {
			case int64: // signed integer -> numeric?
				switch kind {
				case types.Int:
					return int(x)
				case types.Int8:
					return int8(x)
				case types.Int16:
					return int16(x)
				case types.Int32:
					return int32(x)
				case types.Int64:
					return int64(x)
				case types.Uint:
					return uint(x)
				case types.Uint8:
					return uint8(x)
				case types.Uint16:
					return uint16(x)
				case types.Uint32:
					return uint32(x)
				case types.Uint64:
					return uint64(x)
				case types.Uintptr:
					return uintptr(x)
				case types.Float32:
					return float32(x)
				case types.Float64:
					return float64(x)
				}

			case uint64: // unsigned integer -> numeric?
				switch kind {
				case types.Int:
					return int(x)
				case types.Int8:
					return int8(x)
				case types.Int16:
					return int16(x)
				case types.Int32:
					return int32(x)
				case types.Int64:
					return int64(x)
				case types.Uint:
					return uint(x)
				case types.Uint8:
					return uint8(x)
				case types.Uint16:
					return uint16(x)
				case types.Uint32:
					return uint32(x)
				case types.Uint64:
					return uint64(x)
				case types.Uintptr:
					return uintptr(x)
				case types.Float32:
					return float32(x)
				case types.Float64:
					return float64(x)
				}

			case float64: // floating point -> numeric?
				switch kind {
				case types.Int:
					return int(x)
				case types.Int8:
					return int8(x)
				case types.Int16:
					return int16(x)
				case types.Int32:
					return int32(x)
				case types.Int64:
					return int64(x)
				case types.Uint:
					return uint(x)
				case types.Uint8:
					return uint8(x)
				case types.Uint16:
					return uint16(x)
				case types.Uint32:
					return uint32(x)
				case types.Uint64:
					return uint64(x)
				case types.Uintptr:
					return uintptr(x)
				case types.Float32:
					return float32(x)
				case types.Float64:
					return float64(x)
				}
			}
		}
	}

	panic(fmt.Sprintf("unsupported conversion: %s  -> %s, dynamic type %T", t_src, t_dst, x))
}

// sliceToArrayPointer converts the value x of type slice to type t_dst
// a pointer to array and returns the result.
func sliceToArrayPointer(t_dst, t_src types.Type, x value) value {
	if _, ok := t_src.Underlying().(*types.Slice); ok {
		if ptr, ok := t_dst.Underlying().(*types.Pointer); ok {
			if arr, ok := ptr.Elem().Underlying().(*types.Array); ok {
				x := x.([]value)
				if arr.Len() > int64(len(x)) {
					panic("array length is greater than slice length")
				}
				if x == nil {
					return zero(t_dst)
				}
				v := value(array(x[:arr.Len()]))
				return &v
			}
		}
	}

	panic(fmt.Sprintf("unsupported conversion: %s  -> %s, dynamic type %T", t_src, t_dst, x))
}

// checkInterface checks that the method set of x implements the
// interface itype.
// On success it returns "", on failure, an error message.
func checkInterface(i *interpreter, itype *types.Interface, x iface) string {
	if meth, _ := types.MissingMethod(x.t, itype, true); meth != nil {
		return fmt.Sprintf("interface conversion: %v is not %v: missing method %s",
			x.t, itype, meth.Name())
	}
	return "" // ok
}

func foldLeft(op func(value, value) value, args []value) value {
	x := args[0]
	for _, arg := range args[1:] {
		x = op(x, arg)
	}
	return x
}

func vmin(curI *interpreter, x, y value) value {
	switch x := x.(type) {
	case float32:
		return fmin(x, y.(float32))
	case float64:
		return fmin(x, y.(float64))
	}

	// return (y < x) ? y : x
	if curI.truth(binop(curI, token.LSS, nil, y, x)) {
		return y
	}
	return x
}

func vmax(curI *interpreter, x, y value) value {
	switch x := x.(type) {
	case float32:
		return fmax(x, y.(float32))
	case float64:
		return fmax(x, y.(float64))
	}

	// return (y > x) ? y : x
	if curI.truth(binop(curI, token.GTR, nil, y, x)) {
		return y
	}
	return x
}

// copied from $GOROOT/src/runtime/minmax.go

type floaty interface{ ~float32 | ~float64 }

func fmin[F floaty](x, y F) F {
	if y != y || y < x {
		return y
	}
	if x != x || x < y || x != 0 {
		return x
	}
	// x and y are both ±0
	// if either is -0, return -0; else return +0
	return forbits(x, y)
}

func fmax[F floaty](x, y F) F {
	if y != y || y > x {
		return y
	}
	if x != x || x > y || x != 0 {
		return x
	}
	// x and y are both ±0
	// if both are -0, return -0; else return +0
	return fandbits(x, y)
}

func forbits[F floaty](x, y F) F {
	switch unsafe.Sizeof(x) {
	case 4:
		*(*uint32)(unsafe.Pointer(&x)) |= *(*uint32)(unsafe.Pointer(&y))
	case 8:
		*(*uint64)(unsafe.Pointer(&x)) |= *(*uint64)(unsafe.Pointer(&y))
	}
	return x
}

func fandbits[F floaty](x, y F) F {
	switch unsafe.Sizeof(x) {
	case 4:
		*(*uint32)(unsafe.Pointer(&x)) &= *(*uint32)(unsafe.Pointer(&y))
	case 8:
		*(*uint64)(unsafe.Pointer(&x)) &= *(*uint64)(unsafe.Pointer(&y))
	}
	return x
}
