package interp

// Public driver API used by cmd gobmc.

import (
	"fmt"
	"go/types"
	"sync"

	"golang.org/x/tools/go/ssa"
)

type WorkerStats struct {
	InitFailures []string
	Funcs        map[string]int64 // git-bug functions executed -> instructions
}

type Options struct {
	MaxSteps        int64
	Params          map[string]int64
	SolverTimeoutMs int
	MapOrder        int
	Trace           bool
	TwinLabel       string
}

type Worker struct {
	i *interpreter
}

var reflectOnce sync.Once

func NewWorker(prog *ssa.Program, opt Options) (*Worker, error) {
	i := &interpreter{
		prog:     prog,
		globals:  make(map[*ssa.Global]*value),
		sizes:    &types.StdSizes{WordSize: 8, MaxAlign: 8},
		inited:   make(map[*ssa.Package]bool),
		initing:  make(map[*ssa.Package]bool),
		fnInfos:  make(map[*ssa.Function]*fnInfo),
		maxSteps: opt.MaxSteps,
		params:   opt.Params,
		mapOrder: opt.MapOrder,
		twinLabel: opt.TwinLabel,
		baseMapOrder: opt.MapOrder,
		stats:    &WorkerStats{Funcs: make(map[string]int64)},
	}
	if opt.Trace {
		i.mode |= EnableTracing
	}
	if i.maxSteps == 0 {
		i.maxSteps = 50_000_000
	}
	runtimePkg := prog.ImportedPackage("runtime")
	if runtimePkg == nil {
		return nil, fmt.Errorf("ssa.Program doesn't include runtime package")
	}
	i.runtimeErrorString = runtimePkg.Type("errorString").Object().Type()
	reflectOnce.Do(func() { initReflectShared(prog) })
	initReflect(i)
	to := opt.SolverTimeoutMs
	if to == 0 {
		to = 20000
	}
	sol, err := newSolver(to)
	if err != nil {
		return nil, err
	}
	i.sol = sol
	return &Worker{i: i}, nil
}

func (w *Worker) Close() { w.i.sol.close() }

func (w *Worker) Stats() *WorkerStats { return w.i.stats }

func (w *Worker) SolverStats() (sat, unsat, unknown int, seconds float64) {
	s := w.i.sol
	return s.nSat, s.nUnsat, s.nUnknown, s.elapsed.Seconds()
}

// Run executes one path of the harness entry.
func (w *Worker) Run(entry *ssa.Function, harness string, prefix []int32, wantSample bool) *PathResult {
	i := w.i
	i.depth = 0
	i.mapOrder = i.baseMapOrder
	i.nowTick = 0
	i.onSortSlice = nil
	i.interfered = 0
	i.gobst = nil
	i.syncObjs = make(map[*value]*syncObj)
	i.schedInit()
	defer i.schedShutdown()
	return i.RunPath(entry, harness, prefix, wantSample)
}
