package interp

// Insertion-ordered maps with deterministic iteration (needed for stateless
// re-execution) and support for symbolic keys (lookup forks on key equality).

import (
	"go/types"
)

type omap struct {
	keyType types.Type
	keys    []value
	vals    []value
	live    []bool
	idx     map[interface{}][]int // hashKey -> positions (concrete keys only)
	n       int
	symKeys int // number of live keys containing symbolic parts
}

func usesBuiltinMap(t types.Type) bool { return true }

// makeMap returns an empty initialized map of key type kt.
func makeMap(kt types.Type, reserve int64) value {
	return &omap{keyType: kt, idx: make(map[interface{}][]int)}
}

func (m *omap) len() int {
	if m == nil {
		return 0
	}
	return m.n
}

// find returns the position of key k or -1.
func (m *omap) find(i *interpreter, k value) int {
	if m == nil {
		return -1
	}
	if !hasSymDeep(k) {
		for _, p := range m.idx[hashKey(k)] {
			if m.live[p] && !hasSymDeep(m.keys[p]) && equals(i, m.keyType, k, m.keys[p]) {
				return p
			}
		}
		if m.symKeys == 0 {
			return -1
		}
		for p := range m.keys {
			if m.live[p] && hasSymDeep(m.keys[p]) && equals(i, m.keyType, k, m.keys[p]) {
				return p
			}
		}
		return -1
	}
	for p := range m.keys {
		if m.live[p] && equals(i, m.keyType, k, m.keys[p]) {
			return p
		}
	}
	return -1
}

func (m *omap) lookup(i *interpreter, k value) (value, bool) {
	p := m.find(i, k)
	if p < 0 {
		return nil, false
	}
	return m.vals[p], true
}

func (m *omap) insert(i *interpreter, k, v value) {
	if p := m.find(i, k); p >= 0 {
		m.vals[p] = v
		return
	}
	p := len(m.keys)
	m.keys = append(m.keys, k)
	m.vals = append(m.vals, v)
	m.live = append(m.live, true)
	m.n++
	if hasSymDeep(k) {
		m.symKeys++
	} else {
		hk := hashKey(k)
		m.idx[hk] = append(m.idx[hk], p)
	}
}

func (m *omap) delete(i *interpreter, k value) {
	p := m.find(i, k)
	if p < 0 {
		return
	}
	m.live[p] = false
	m.n--
	if hasSymDeep(m.keys[p]) {
		m.symKeys--
	}
	m.vals[p] = nil
}

type omapIter struct {
	m    *omap
	pos  int
	end  int
	step int
}

func (m *omap) iter(i *interpreter) iter {
	if m == nil {
		return &omapIter{}
	}
	if i.mapOrder == 1 {
		return &omapIter{m: m, pos: len(m.keys) - 1, end: -1, step: -1}
	}
	return &omapIter{m: m, pos: 0, end: len(m.keys), step: 1}
}

func (it *omapIter) next() tuple {
	for it.m != nil && it.pos != it.end {
		p := it.pos
		it.pos += it.step
		if p < len(it.m.live) && it.m.live[p] {
			return tuple{true, it.m.keys[p], it.m.vals[p]}
		}
	}
	return tuple{false, nil, nil}
}
