// Copyright 2013 The Go Authors. All rights reserved.
// Use of this source code is governed by a BSD-style
// license that can be found in the LICENSE file.
//
// Derived from golang.org/x/tools/go/ssa/interp (v0.29.0); extended with symbolic
// scalars (sym), symbolic strings (symstr), ordered maps (omap) and cooperative
// channels (chanv).

package interp

// Values
//
// All interpreter values are "boxed" in the empty interface, value.
// The range of possible dynamic types within value are:
//
// - bool
// - numbers (all built-in int/float/complex types are distinguished)
// - sym --- a bool or integer whose value is an SMT term
// - string, symstr
// - *omap --- maps (insertion ordered, deterministic iteration)
// - *chanv --- channels
// - []value --- slices
// - iface --- interfaces.
// - structure --- structs.  Fields are ordered and accessed by numeric indices.
// - array --- arrays.
// - *value --- pointers.  Careful: *value is a distinct type from *array etc.
// - *ssa.Function \
//   *ssa.Builtin   } --- functions.  A nil 'func' is always of type *ssa.Function.
//   *closure      /
// - tuple --- as returned by Return, Next, "value,ok" modes, etc.
// - iter --- iterators from 'range' over map or string.
// - bad --- a poison pill for locals that have gone out of scope.
// - rtype -- the interpreter's concrete implementation of reflect.Type
// - **deferred -- the address of a frame's defer stack for a Defer._Stack.

import (
	"bytes"
	"fmt"
	"go/token"
	"go/types"
	"io"
	"strings"
	"sync"
	"unsafe"

	"golang.org/x/tools/go/ssa"
	"golang.org/x/tools/go/types/typeutil"
)

type value interface{}

type tuple []value

type array []value

type iface struct {
	t types.Type // never an "untyped" type
	v value
}

type structure []value

// For map, array, *array, slice, string or channel.
type iter interface {
	// next returns a Tuple (key, value, ok).
	// key and value are unaliased, e.g. copies of the sequence element.
	next() tuple
}

type closure struct {
	Fn  *ssa.Function
	Env []value
}

type bad struct{}

type rtype struct {
	t types.Type
}

// hashString computes the FNV hash of s.
func hashString(s string) int {
	var h uint32
	for i := 0; i < len(s); i++ {
		h ^= uint32(s[i])
		h *= 16777619
	}
	return int(h)
}

var (
	mu     sync.Mutex
	hasher = typeutil.MakeHasher()
)

// hashType returns a hash for t such that
// types.Identical(x, y) => hashType(x) == hashType(y).
func hashType(t types.Type) int {
	mu.Lock()
	defer mu.Unlock()
	return int(hasher.Hash(t))
}

// nil-tolerant variant of types.Identical.
func sameType(x, y types.Type) bool {
	if x == nil {
		return y == nil
	}
	return y != nil && types.Identical(x, y)
}

// eqv returns x == y according to Go's equivalence relation for type t, as a Go
// bool when decidable concretely and as a symbolic bool otherwise.
func eqv(i *interpreter, t types.Type, x, y value) value {
	switch x := x.(type) {
	case bool:
		if yb, ok := y.(bool); ok {
			return x == yb
		}
	case int:
		if yv, ok := y.(int); ok {
			return x == yv
		}
	case int8:
		if yv, ok := y.(int8); ok {
			return x == yv
		}
	case int16:
		if yv, ok := y.(int16); ok {
			return x == yv
		}
	case int32:
		if yv, ok := y.(int32); ok {
			return x == yv
		}
	case int64:
		if yv, ok := y.(int64); ok {
			return x == yv
		}
	case uint:
		if yv, ok := y.(uint); ok {
			return x == yv
		}
	case uint8:
		if yv, ok := y.(uint8); ok {
			return x == yv
		}
	case uint16:
		if yv, ok := y.(uint16); ok {
			return x == yv
		}
	case uint32:
		if yv, ok := y.(uint32); ok {
			return x == yv
		}
	case uint64:
		if yv, ok := y.(uint64); ok {
			return x == yv
		}
	case uintptr:
		if yv, ok := y.(uintptr); ok {
			return x == yv
		}
	case float32:
		return x == y.(float32)
	case float64:
		return x == y.(float64)
	case complex64:
		return x == y.(complex64)
	case complex128:
		return x == y.(complex128)
	case string:
		if ys, ok := y.(string); ok {
			return x == ys
		}
		return i.strEq(x, y)
	case symstr:
		return i.strEq(x, y)
	case *value:
		return x == y.(*value)
	case *chanv:
		return x == y.(*chanv)
	case unsafe.Pointer:
		return x == y.(unsafe.Pointer)
	case structure:
		ys := y.(structure)
		tStruct := t.Underlying().(*types.Struct)
		var r value = true
		for j, n := 0, tStruct.NumFields(); j < n; j++ {
			if f := tStruct.Field(j); f.Name() != "_" {
				r = i.vAnd(r, eqv(i, f.Type(), x[j], ys[j]))
				if r == false {
					return false
				}
			}
		}
		return r
	case array:
		ya := y.(array)
		tElt := t.Underlying().(*types.Array).Elem()
		var r value = true
		for j, xi := range x {
			r = i.vAnd(r, eqv(i, tElt, xi, ya[j]))
			if r == false {
				return false
			}
		}
		return r
	case iface:
		yi := y.(iface)
		if !sameType(x.t, yi.t) {
			return false
		}
		if x.t == nil {
			return true
		}
		if !types.Comparable(x.t) {
			runtimePanic(i, "comparing uncomparable type "+x.t.String())
		}
		return eqv(i, x.t, x.v, yi.v)
	case rtype:
		return types.Identical(x.t, y.(rtype).t)
	case *ssa.Function, *closure, *ssa.Builtin:
		panic(engineError("comparison of func values"))
	}
	if isSym(x) || isSym(y) {
		return i.symBinop(token.EQL, x, y)
	}

	// Since map, func and slice don't support comparison, this
	// case is only reachable if one of x or y is literally nil
	// (handled in eqnil) or via interface{} values.
	panic(engineError(fmt.Sprintf("comparing uncomparable type %s (%T)", t, x)))
}

// equals forces eqv to a Go bool (forking on a symbolic outcome).
func equals(i *interpreter, t types.Type, x, y value) bool {
	return i.truth(eqv(i, t, x, y))
}

// hasSymDeep reports whether v contains a symbolic scalar or string.
func hasSymDeep(v value) bool {
	switch x := v.(type) {
	case sym, symstr:
		return true
	case structure:
		for _, e := range x {
			if hasSymDeep(e) {
				return true
			}
		}
	case array:
		for _, e := range x {
			if hasSymDeep(e) {
				return true
			}
		}
	case iface:
		return hasSymDeep(x.v)
	}
	return false
}

// hashKey returns a Go-comparable key such that equal concrete values have equal keys.
func hashKey(x value) interface{} {
	switch x := x.(type) {
	case bool, int, int8, int16, int32, int64, uint, uint8, uint16, uint32, uint64, uintptr,
		float32, float64, complex64, complex128, string, *value, *chanv, unsafe.Pointer:
		return x
	case structure:
		h := 0
		for _, e := range x {
			h = h*31 + hashInt(hashKey(e))
		}
		return h
	case array:
		h := 0
		for _, e := range x {
			h = h*31 + hashInt(hashKey(e))
		}
		return h
	case iface:
		if x.t == nil {
			return 0
		}
		return hashType(x.t)*8581 + hashInt(hashKey(x.v))
	case rtype:
		return hashType(x.t)
	}
	panic(engineError(fmt.Sprintf("unhashable map key %T", x)))
}

func hashInt(k interface{}) int {
	switch k := k.(type) {
	case int:
		return k
	case string:
		return hashString(k)
	case bool:
		if k {
			return 1
		}
		return 0
	case *value:
		return int(uintptr(unsafe.Pointer(k)))
	case *chanv:
		return int(uintptr(unsafe.Pointer(k)))
	case float32:
		return int(k)
	case float64:
		return int(k)
	}
	if _, b, ok := scalarBits(k); ok {
		return int(b)
	}
	return 7
}

// reflect.Value struct values don't have a fixed shape, since the
// payload can be a scalar or an aggregate depending on the instance.
// So store (and load) can't simply use recursion over the shape of the
// rhs value, or the lhs, to copy the value; we need the static type
// information.  (We can't make reflect.Value a new basic data type
// because its "structness" is exposed to Go programs.)

// load returns the value of type T in *addr.
func load(T types.Type, addr *value) value {
	switch T := T.Underlying().(type) {
	case *types.Struct:
		v := (*addr).(structure)
		a := make(structure, len(v))
		for i := range a {
			a[i] = load(T.Field(i).Type(), &v[i])
		}
		return a
	case *types.Array:
		v := (*addr).(array)
		a := make(array, len(v))
		for i := range a {
			a[i] = load(T.Elem(), &v[i])
		}
		return a
	default:
		return *addr
	}
}

// store stores value v of type T into *addr.
func store(T types.Type, addr *value, v value) {
	switch T := T.Underlying().(type) {
	case *types.Struct:
		lhs := (*addr).(structure)
		rhs := v.(structure)
		for i := range lhs {
			store(T.Field(i).Type(), &lhs[i], rhs[i])
		}
	case *types.Array:
		lhs := (*addr).(array)
		rhs := v.(array)
		for i := range lhs {
			store(T.Elem(), &lhs[i], rhs[i])
		}
	default:
		*addr = v
	}
}

// Prints in the style of built-in println.
func writeValue(buf *bytes.Buffer, v value) {
	switch v := v.(type) {
	case nil, bool, int, int8, int16, int32, int64, uint, uint8, uint16, uint32, uint64, uintptr, float32, float64, complex64, complex128, string:
		fmt.Fprintf(buf, "%v", v)

	case *omap:
		buf.WriteString("map[")
		if v != nil {
			sep := ""
			for j := range v.keys {
				if !v.live[j] {
					continue
				}
				buf.WriteString(sep)
				sep = " "
				writeValue(buf, v.keys[j])
				buf.WriteString(":")
				writeValue(buf, v.vals[j])
			}
		}
		buf.WriteString("]")

	case *chanv:
		fmt.Fprintf(buf, "%p", v) // (an address)

	case sym:
		fmt.Fprintf(buf, "<sym %s>", v.t.String())

	case symstr:
		buf.WriteString("<symstr ")
		for _, e := range v.b {
			if c, ok := e.(uint8); ok {
				buf.WriteByte(c)
			} else {
				buf.WriteString("?")
			}
		}
		buf.WriteString(">")

	case *value:
		if v == nil {
			buf.WriteString("<nil>")
		} else {
			fmt.Fprintf(buf, "%p", v)
		}

	case iface:
		fmt.Fprintf(buf, "(%s, ", v.t)
		writeValue(buf, v.v)
		buf.WriteString(")")

	case structure:
		buf.WriteString("{")
		for i, e := range v {
			if i > 0 {
				buf.WriteString(" ")
			}
			writeValue(buf, e)
		}
		buf.WriteString("}")

	case array:
		buf.WriteString("[")
		for i, e := range v {
			if i > 0 {
				buf.WriteString(" ")
			}
			writeValue(buf, e)
		}
		buf.WriteString("]")

	case []value:
		buf.WriteString("[")
		for i, e := range v {
			if i > 0 {
				buf.WriteString(" ")
			}
			writeValue(buf, e)
		}
		buf.WriteString("]")

	case *ssa.Function, *ssa.Builtin, *closure:
		fmt.Fprintf(buf, "%p", v) // (an address)

	case rtype:
		buf.WriteString(v.t.String())

	case tuple:
		// Unreachable in well-formed Go programs
		buf.WriteString("(")
		for i, e := range v {
			if i > 0 {
				buf.WriteString(", ")
			}
			writeValue(buf, e)
		}
		buf.WriteString(")")

	default:
		fmt.Fprintf(buf, "<%T>", v)
	}
}

// Implements printing of Go values in the style of built-in println.
func toString(v value) string {
	var b bytes.Buffer
	writeValue(&b, v)
	return b.String()
}

// ------------------------------------------------------------------------
// Iterators

type stringIter struct {
	*strings.Reader
	i int
}

func (it *stringIter) next() tuple {
	okv := make(tuple, 3)
	ch, n, err := it.ReadRune()
	ok := err != io.EOF
	okv[0] = ok
	if ok {
		okv[1] = it.i
		okv[2] = ch
	}
	it.i += n
	return okv
}

// symstrIter ranges over a string with symbolic bytes, decoding runes with the real
// unicode/utf8 code executed symbolically.
type symstrIter struct {
	fr *frame
	s  symstr
	i  int
}

func (it *symstrIter) next() tuple {
	okv := make(tuple, 3)
	if it.i >= len(it.s.b) {
		okv[0] = false
		return okv
	}
	okv[0] = true
	okv[1] = it.i
	if c, ok := it.s.b[it.i].(uint8); ok && c < 0x80 {
		okv[2] = rune(c)
		it.i++
		return okv
	}
	r, n := it.fr.i.decodeRune(it.fr, mkstr(it.s.b[it.i:]))
	okv[2] = r
	it.i += n
	return okv
}
