package interp

// SMT terms: hash-consed bit-vector / boolean expressions with eager simplification.
// Width 0 means Bool. All bit-vector widths are 8, 16, 32 or 64 (Go machine integers).

import (
	"fmt"
	"strings"
)

type Term struct {
	op   string // var const bvadd bvsub bvmul bvudiv bvurem bvsdiv bvsrem bvand bvor bvxor bvnot bvneg bvshl bvlshr bvashr ult ule slt sle eq and or not ite extract zext sext concat
	w    int    // result width; 0 = Bool
	args []*Term
	val  uint64 // const payload (bool: 0/1)
	name string // var
	p1   int    // extract hi / ext amount
	p2   int    // extract lo
	id   int
}

type termTable struct {
	m    map[string]*Term
	next int
}

func newTermTable() *termTable { return &termTable{m: make(map[string]*Term)} }

func (tt *termTable) intern(t *Term) *Term {
	var sb strings.Builder
	fmt.Fprintf(&sb, "%s|%d|%d|%s|%d|%d", t.op, t.w, t.val, t.name, t.p1, t.p2)
	for _, a := range t.args {
		fmt.Fprintf(&sb, "|%d", a.id)
	}
	k := sb.String()
	if e, ok := tt.m[k]; ok {
		return e
	}
	tt.next++
	t.id = tt.next
	tt.m[k] = t
	return t
}

func mask(w int) uint64 {
	if w == 0 {
		return 1 // Bool
	}
	if w >= 64 {
		return ^uint64(0)
	}
	return (uint64(1) << uint(w)) - 1
}

func signExt(v uint64, w int) int64 {
	if w >= 64 {
		return int64(v)
	}
	s := uint(64 - w)
	return int64(v<<s) >> s
}

func (t *Term) isConst() bool { return t.op == "const" }
func (t *Term) isTrue() bool  { return t.op == "const" && t.w == 0 && t.val == 1 }
func (t *Term) isFalse() bool { return t.op == "const" && t.w == 0 && t.val == 0 }

func (tt *termTable) Const(w int, v uint64) *Term {
	return tt.intern(&Term{op: "const", w: w, val: v & mask(w)})
}
func (tt *termTable) Bool(b bool) *Term {
	v := uint64(0)
	if b {
		v = 1
	}
	return tt.intern(&Term{op: "const", w: 0, val: v})
}
func (tt *termTable) Var(name string, w int) *Term {
	return tt.intern(&Term{op: "var", w: w, name: name})
}

func (tt *termTable) mk(op string, w int, args ...*Term) *Term {
	return tt.intern(&Term{op: op, w: w, args: args})
}

// BV binary arithmetic / bitwise with constant folding and light identities.
func (tt *termTable) Bin(op string, a, b *Term) *Term {
	w := a.w
	if a.w != b.w {
		panic(engineError(fmt.Sprintf("term width mismatch in %s: %d vs %d", op, a.w, b.w)))
	}
	if a.isConst() && b.isConst() {
		x, y := a.val, b.val
		m := mask(w)
		switch op {
		case "bvadd":
			return tt.Const(w, x+y)
		case "bvsub":
			return tt.Const(w, x-y)
		case "bvmul":
			return tt.Const(w, x*y)
		case "bvand":
			return tt.Const(w, x&y)
		case "bvor":
			return tt.Const(w, x|y)
		case "bvxor":
			return tt.Const(w, x^y)
		case "bvudiv":
			if y == 0 {
				return tt.Const(w, m)
			}
			return tt.Const(w, x/y)
		case "bvurem":
			if y == 0 {
				return tt.Const(w, x)
			}
			return tt.Const(w, x%y)
		case "bvsdiv":
			if y != 0 {
				sx, sy := signExt(x, w), signExt(y, w)
				if !(sy == -1) {
					return tt.Const(w, uint64(sx/sy))
				}
				return tt.Const(w, uint64(-sx))
			}
		case "bvsrem":
			if y != 0 {
				sx, sy := signExt(x, w), signExt(y, w)
				if sy == -1 {
					return tt.Const(w, 0)
				}
				return tt.Const(w, uint64(sx%sy))
			}
		case "bvshl":
			if y >= uint64(w) {
				return tt.Const(w, 0)
			}
			return tt.Const(w, x<<y)
		case "bvlshr":
			if y >= uint64(w) {
				return tt.Const(w, 0)
			}
			return tt.Const(w, x>>y)
		case "bvashr":
			sx := signExt(x, w)
			if y >= uint64(w) {
				y = uint64(w - 1)
			}
			return tt.Const(w, uint64(sx>>y))
		}
	}
	switch op {
	case "bvadd", "bvor", "bvxor":
		if a.isConst() && a.val == 0 {
			return b
		}
		if b.isConst() && b.val == 0 {
			return a
		}
	case "bvsub", "bvshl", "bvlshr", "bvashr":
		if b.isConst() && b.val == 0 {
			return a
		}
	case "bvand":
		if a.isConst() && a.val == 0 {
			return a
		}
		if b.isConst() && b.val == 0 {
			return b
		}
		if a.isConst() && a.val == mask(w) {
			return b
		}
		if b.isConst() && b.val == mask(w) {
			return a
		}
	case "bvmul":
		if a.isConst() && a.val == 1 {
			return b
		}
		if b.isConst() && b.val == 1 {
			return a
		}
		if (a.isConst() && a.val == 0) || (b.isConst() && b.val == 0) {
			return tt.Const(w, 0)
		}
	}
	if op == "bvsub" && a == b {
		return tt.Const(w, 0)
	}
	if op == "bvxor" && a == b {
		return tt.Const(w, 0)
	}
	if (op == "bvand" || op == "bvor") && a == b {
		return a
	}
	return tt.mk(op, w, a, b)
}

func (tt *termTable) Un(op string, a *Term) *Term {
	if a.isConst() {
		switch op {
		case "bvnot":
			return tt.Const(a.w, ^a.val)
		case "bvneg":
			return tt.Const(a.w, -a.val)
		}
	}
	return tt.mk(op, a.w, a)
}

// Cmp builds ult/ule/slt/sle/eq over bit-vectors (or eq over bools).
func (tt *termTable) Cmp(op string, a, b *Term) *Term {
	if a.w != b.w {
		panic(engineError(fmt.Sprintf("term width mismatch in %s: %d vs %d", op, a.w, b.w)))
	}
	if a.isConst() && b.isConst() {
		x, y := a.val, b.val
		sx, sy := signExt(x, a.w), signExt(y, a.w)
		switch op {
		case "eq":
			return tt.Bool(x == y)
		case "ult":
			return tt.Bool(x < y)
		case "ule":
			return tt.Bool(x <= y)
		case "slt":
			return tt.Bool(sx < sy)
		case "sle":
			return tt.Bool(sx <= sy)
		}
	}
	if a == b {
		switch op {
		case "eq", "ule", "sle":
			return tt.Bool(true)
		case "ult", "slt":
			return tt.Bool(false)
		}
	}
	if op == "eq" {
		if a.w == 0 {
			// boolean equality
			if a.isConst() {
				if a.val == 1 {
					return b
				}
				return tt.Not(b)
			}
			if b.isConst() {
				if b.val == 1 {
					return a
				}
				return tt.Not(a)
			}
		}
		if a.id > b.id {
			a, b = b, a
		}
		// eq(zext(x), const) with const beyond range
		if b.isConst() && a.op == "zext" {
			inner := a.args[0]
			if b.val > mask(inner.w) {
				return tt.Bool(false)
			}
			return tt.Cmp("eq", inner, tt.Const(inner.w, b.val))
		}
		if a.isConst() && b.op == "zext" {
			inner := b.args[0]
			if a.val > mask(inner.w) {
				return tt.Bool(false)
			}
			return tt.Cmp("eq", inner, tt.Const(inner.w, a.val))
		}
	}
	if op == "ult" && b.isConst() && b.val == 0 {
		return tt.Bool(false)
	}
	if op == "ule" && a.isConst() && a.val == 0 {
		return tt.Bool(true)
	}
	return tt.mk(op, 0, a, b)
}

func (tt *termTable) Not(a *Term) *Term {
	if a.isConst() {
		return tt.Bool(a.val == 0)
	}
	if a.op == "not" {
		return a.args[0]
	}
	return tt.mk("not", 0, a)
}

func (tt *termTable) And(a, b *Term) *Term {
	if a.isFalse() || b.isFalse() {
		return tt.Bool(false)
	}
	if a.isTrue() {
		return b
	}
	if b.isTrue() {
		return a
	}
	if a == b {
		return a
	}
	if a.id > b.id {
		a, b = b, a
	}
	return tt.mk("and", 0, a, b)
}

func (tt *termTable) Or(a, b *Term) *Term {
	if a.isTrue() || b.isTrue() {
		return tt.Bool(true)
	}
	if a.isFalse() {
		return b
	}
	if b.isFalse() {
		return a
	}
	if a == b {
		return a
	}
	if a.id > b.id {
		a, b = b, a
	}
	return tt.mk("or", 0, a, b)
}

func (tt *termTable) Ite(c, a, b *Term) *Term {
	if c.isTrue() {
		return a
	}
	if c.isFalse() {
		return b
	}
	if a == b {
		return a
	}
	if a.w == 0 {
		if a.isTrue() && b.isFalse() {
			return c
		}
		if a.isFalse() && b.isTrue() {
			return tt.Not(c)
		}
	}
	return tt.mk("ite", a.w, c, a, b)
}

func (tt *termTable) Extract(hi, lo int, a *Term) *Term {
	if lo == 0 && hi == a.w-1 {
		return a
	}
	if a.isConst() {
		return tt.Const(hi-lo+1, a.val>>uint(lo))
	}
	if (a.op == "zext" || a.op == "sext") && lo == 0 {
		inner := a.args[0]
		if hi == inner.w-1 {
			return inner
		}
		if hi < inner.w-1 {
			return tt.Extract(hi, 0, inner)
		}
	}
	return tt.intern(&Term{op: "extract", w: hi - lo + 1, args: []*Term{a}, p1: hi, p2: lo})
}

func (tt *termTable) ZExt(to int, a *Term) *Term {
	if to == a.w {
		return a
	}
	if to < a.w {
		return tt.Extract(to-1, 0, a)
	}
	if a.isConst() {
		return tt.Const(to, a.val)
	}
	if a.op == "zext" {
		return tt.ZExt(to, a.args[0])
	}
	return tt.intern(&Term{op: "zext", w: to, args: []*Term{a}, p1: to - a.w})
}

func (tt *termTable) SExt(to int, a *Term) *Term {
	if to == a.w {
		return a
	}
	if to < a.w {
		return tt.Extract(to-1, 0, a)
	}
	if a.isConst() {
		return tt.Const(to, uint64(signExt(a.val, a.w)))
	}
	return tt.intern(&Term{op: "sext", w: to, args: []*Term{a}, p1: to - a.w})
}

func sortOf(w int) string {
	if w == 0 {
		return "Bool"
	}
	return fmt.Sprintf("(_ BitVec %d)", w)
}

// head renders the node with its children referenced by name.
func (t *Term) render(ref func(*Term) string) string {
	switch t.op {
	case "const":
		if t.w == 0 {
			if t.val == 1 {
				return "true"
			}
			return "false"
		}
		return fmt.Sprintf("(_ bv%d %d)", t.val, t.w)
	case "var":
		return t.name
	case "ult", "ule", "slt", "sle":
		return fmt.Sprintf("(bv%s %s %s)", t.op, ref(t.args[0]), ref(t.args[1]))
	case "eq":
		return fmt.Sprintf("(= %s %s)", ref(t.args[0]), ref(t.args[1]))
	case "extract":
		return fmt.Sprintf("((_ extract %d %d) %s)", t.p1, t.p2, ref(t.args[0]))
	case "zext":
		return fmt.Sprintf("((_ zero_extend %d) %s)", t.p1, ref(t.args[0]))
	case "sext":
		return fmt.Sprintf("((_ sign_extend %d) %s)", t.p1, ref(t.args[0]))
	default:
		var sb strings.Builder
		sb.WriteString("(")
		sb.WriteString(t.op)
		for _, a := range t.args {
			sb.WriteString(" ")
			sb.WriteString(ref(a))
		}
		sb.WriteString(")")
		return sb.String()
	}
}

// eval evaluates t under a variable assignment (used to cross-check models and for
// encoder validation).
func (t *Term) eval(env map[string]uint64, memo map[*Term]uint64) uint64 {
	if v, ok := memo[t]; ok {
		return v
	}
	var r uint64
	a := func(i int) uint64 { return t.args[i].eval(env, memo) }
	aw := func(i int) int { return t.args[i].w }
	b2u := func(b bool) uint64 {
		if b {
			return 1
		}
		return 0
	}
	switch t.op {
	case "const":
		r = t.val
	case "var":
		r = env[t.name] & mask(t.w)
		if t.w == 0 {
			r = env[t.name] & 1
		}
	case "bvadd":
		r = a(0) + a(1)
	case "bvsub":
		r = a(0) - a(1)
	case "bvmul":
		r = a(0) * a(1)
	case "bvand":
		r = a(0) & a(1)
	case "bvor":
		r = a(0) | a(1)
	case "bvxor":
		r = a(0) ^ a(1)
	case "bvnot":
		r = ^a(0)
	case "bvneg":
		r = -a(0)
	case "bvudiv":
		if a(1) == 0 {
			r = mask(t.w)
		} else {
			r = a(0) / a(1)
		}
	case "bvurem":
		if a(1) == 0 {
			r = a(0)
		} else {
			r = a(0) % a(1)
		}
	case "bvsdiv":
		x, y := signExt(a(0), t.w), signExt(a(1), t.w)
		if y == 0 {
			if x < 0 {
				r = 1
			} else {
				r = mask(t.w)
			}
		} else if y == -1 {
			r = uint64(-x)
		} else {
			r = uint64(x / y)
		}
	case "bvsrem":
		x, y := signExt(a(0), t.w), signExt(a(1), t.w)
		if y == 0 {
			r = uint64(x)
		} else if y == -1 {
			r = 0
		} else {
			r = uint64(x % y)
		}
	case "bvshl":
		if a(1) >= uint64(t.w) {
			r = 0
		} else {
			r = a(0) << a(1)
		}
	case "bvlshr":
		if a(1) >= uint64(t.w) {
			r = 0
		} else {
			r = a(0) >> a(1)
		}
	case "bvashr":
		s := a(1)
		if s >= uint64(t.w) {
			s = uint64(t.w - 1)
		}
		r = uint64(signExt(a(0), t.w) >> s)
	case "ult":
		r = b2u(a(0) < a(1))
	case "ule":
		r = b2u(a(0) <= a(1))
	case "slt":
		r = b2u(signExt(a(0), aw(0)) < signExt(a(1), aw(1)))
	case "sle":
		r = b2u(signExt(a(0), aw(0)) <= signExt(a(1), aw(1)))
	case "eq":
		r = b2u(a(0) == a(1))
	case "and":
		r = a(0) & a(1)
	case "or":
		r = a(0) | a(1)
	case "not":
		r = 1 - a(0)
	case "ite":
		if a(0) == 1 {
			r = a(1)
		} else {
			r = a(2)
		}
	case "extract":
		r = a(0) >> uint(t.p2)
	case "zext":
		r = a(0)
	case "sext":
		r = uint64(signExt(a(0), aw(0)))
	default:
		panic(engineError("eval: unknown op " + t.op))
	}
	if t.w > 0 {
		r &= mask(t.w)
	} else {
		r &= 1
	}
	memo[t] = r
	return r
}

func (t *Term) String() string {
	return t.render(func(x *Term) string { return x.String() })
}
