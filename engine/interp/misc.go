package interp

import (
	"fmt"
	"go/types"
	"os"

	"golang.org/x/tools/go/ssa"
)

func mustDeref(t types.Type) types.Type {
	if p, ok := t.Underlying().(*types.Pointer); ok {
		return p.Elem()
	}
	panic(engineError(fmt.Sprintf("mustDeref: not a pointer: %s", t)))
}

// ensureBuilt builds the SSA body of fn's package on demand.
func ensureBuilt(fn *ssa.Function) {
	f := fn
	for f.Parent() != nil {
		f = f.Parent()
	}
	if f.Pkg != nil {
		f.Pkg.Build()
	}
	if o := f.Origin(); o != nil && o.Pkg != nil {
		o.Pkg.Build()
	}
	// synthetic wrappers (bound methods, thunks, promoted methods) have no package:
	// build the package of the method they wrap
	if f.Pkg == nil && f.Signature != nil && f.Signature.Recv() != nil {
		if n := namedOf(f.Signature.Recv().Type()); n != nil && n.Obj().Pkg() != nil {
			if p := f.Prog.Package(n.Obj().Pkg()); p != nil {
				p.Build()
			}
		}
	}
	if f.Object() != nil && f.Object().Pkg() != nil {
		if p := f.Prog.Package(f.Object().Pkg()); p != nil {
			p.Build()
		}
	}
}

func namedOf(t types.Type) *types.Named {
	for {
		switch x := t.(type) {
		case *types.Pointer:
			t = x.Elem()
		case *types.Named:
			return x
		case *types.Alias:
			t = types.Unalias(x)
		default:
			return nil
		}
	}
}

// globalAddr returns the address of a package-level variable, running the owning
// package's initializer (bare: without dependency inits) the first time.
func (i *interpreter) globalAddr(g *ssa.Global) *value {
	pkg := g.Pkg
	if pkg != nil && !i.inited[pkg] {
		i.initPackage(pkg)
	}
	if r, ok := i.globals[g]; ok {
		return r
	}
	cell := zero(mustDeref(g.Type()))
	p := &cell
	i.globals[g] = p
	return p
}

func (i *interpreter) initPackage(pkg *ssa.Package) {
	if i.inited[pkg] || i.initing[pkg] {
		return
	}
	i.initing[pkg] = true
	defer func() {
		delete(i.initing, pkg)
		i.inited[pkg] = true
	}()
	pkg.Build()
	for _, m := range pkg.Members {
		if g, ok := m.(*ssa.Global); ok {
			if _, ok := i.globals[g]; !ok {
				cell := zero(mustDeref(g.Type()))
				i.globals[g] = &cell
			}
		}
	}
	if noInit[pkg.Pkg.Path()] {
		return
	}
	initFn := pkg.Func("init")
	if initFn == nil {
		return
	}
	// Package initialisation is environment set-up: it runs outside any path
	// (no symbolic state) and a failure leaves the remaining globals zero.
	savedPS, savedSched, savedDepth := i.ps, i.sched, i.depth
	i.ps, i.sched = nil, nil
	defer func() {
		i.ps, i.sched, i.depth = savedPS, savedSched, savedDepth
		if r := recover(); r != nil {
			msg := fmt.Sprint(r)
			if len(msg) > 300 {
				msg = msg[:300]
			}
			i.stats.InitFailures = append(i.stats.InitFailures, pkg.Pkg.Path()+": "+msg)
			if os.Getenv("GOBMC_DEBUG") != "" {
				fmt.Fprintf(os.Stderr, "gobmc: init of %s failed: %s\n", pkg.Pkg.Path(), msg)
			}
		}
	}()
	i.tolerantInit = initFn
	call(i, nil, 0, initFn, nil)
}

// packages whose init is never run (heavy or irrelevant global state)
var noInit = map[string]bool{
	"runtime":          true,
	"syscall":          true,
	"internal/poll":    true,
	"internal/cpu":     true,
	"internal/godebug": true,
	"testing":          true,
	"net":              true,
	"crypto/tls":       true,
	"crypto/x509":      true,
	"time":             true,
	"reflect":          true,
	"sync":             true,
	"log":              true,
}

// decodeRune decodes the first rune of s (which has symbolic bytes) by running the
// real utf8.DecodeRuneInString symbolically.
func (i *interpreter) decodeRune(fr *frame, s value) (value, int) {
	pkg := i.prog.ImportedPackage("unicode/utf8")
	if pkg == nil {
		panic(engineError("unicode/utf8 not loaded"))
	}
	fn := pkg.Func("DecodeRuneInString")
	res := call(i, fr, 0, fn, []value{s}).(tuple)
	n := int(i.concretizeInt(res[1], 0, 4, "rune size"))
	return res[0], n
}

func (i *interpreter) symstrRunes(s symstr) value {
	var out []value
	for pos := 0; pos < len(s.b); {
		if c, ok := s.b[pos].(uint8); ok && c < 0x80 {
			out = append(out, rune(c))
			pos++
			continue
		}
		r, n := i.decodeRune(nil, mkstr(s.b[pos:]))
		out = append(out, r)
		pos += n
	}
	return out
}
