// Copyright 2013 The Go Authors. All rights reserved.
// Use of this source code is governed by a BSD-style
// license that can be found in the LICENSE file.

// Package ssa/interp defines an interpreter for the SSA
// representation of Go programs.
//
// This interpreter is provided as an adjunct for testing the SSA
// construction algorithm.  Its purpose is to provide a minimal
// metacircular implementation of the dynamic semantics of each SSA
// instruction.  It is not, and will never be, a production-quality Go
// interpreter.
//
// The following is a partial list of Go features that are currently
// unsupported or incomplete in the interpreter.
//
// * Unsafe operations, including all uses of unsafe.Pointer, are
// impossible to support given the "boxed" value representation we
// have chosen.
//
// * The reflect package is only partially implemented.
//
// * The "testing" package is no longer supported because it
// depends on low-level details that change too often.
//
// * "sync/atomic" operations are not atomic due to the "boxed" value
// representation: it is not possible to read, modify and write an
// interface value atomically. As a consequence, Mutexes are currently
// broken.
//
// * recover is only partially implemented.  Also, the interpreter
// makes no attempt to distinguish target panics from interpreter
// crashes.
//
// * the sizes of the int, uint and uintptr types in the target
// program are assumed to be the same as those of the interpreter
// itself.
//
// * all values occupy space, even those of types defined by the spec
// to have zero size, e.g. struct{}.  This can cause asymptotic
// performance degradation.
//
// * os.Exit is implemented using panic, causing deferred functions to
// run.
package interp // import "golang.org/x/tools/go/ssa/interp"

import (
	"fmt"
	"go/token"
	"go/types"
	"log"
	"os"
	"runtime"
	"runtime/debug"
	"strings"
	"slices"
	_ "unsafe"

	"golang.org/x/tools/go/ssa"
)

type continuation int

const (
	kNext continuation = iota
	kReturn
	kJump
)

// Mode is a bitmask of options affecting the interpreter.
type Mode uint

const (
	DisableRecover Mode = 1 << iota // Disable recover() in target programs; show interpreter crash instead.
	EnableTracing                   // Print a trace of all instructions as they are interpreted.
)

type methodSet map[string]*ssa.Function

// State shared between all interpreted goroutines.
type interpreter struct {
	osArgs             []value                // the value of os.Args
	prog               *ssa.Program           // the SSA program
	globals            map[*ssa.Global]*value // addresses of global variables (immutable)
	mode               Mode                   // interpreter options
	reflectPackage     *ssa.Package           // the fake reflect package
	errorMethods       methodSet              // the method set of reflect.error, which implements the error interface.
	rtypeMethods       methodSet              // the method set of rtype, which implements the reflect.Type interface.
	runtimeErrorString types.Type             // the runtime.errorString type
	sizes              types.Sizes            // the effective type-sizing function
	goroutines         int32                  // atomically updated

	// symbolic execution state
	ps       *pathState            // current path (nil outside RunPath)
	sol      *solver               // this worker's solver
	inited   map[*ssa.Package]bool // packages whose (bare) init has run in this worker
	maxSteps int64
	params   map[string]int64
	depth    int
	mapOrder int // 0 insertion order, 1 reverse
	stats    *WorkerStats
	errorIface types.Type
	fnInfos  map[*ssa.Function]*fnInfo
	sched    *schedState
	syncObjs map[*value]*syncObj
	initing  map[*ssa.Package]bool
	nowTick  int64
	bypass   *ssa.Function // call the real body of this function once, not its intrinsic
	tolerantInit *ssa.Function
	onSortSlice  value
	interfered   int64
	gobst        *gobState
	twinLabel string
	baseMapOrder int
	atomicAdversary func(p *value)
}

// symAddr returns a symbolic element pointer for &x[idx] when idx is symbolic, the
// elements are scalars and the address is only loaded from / stored to.
func (i *interpreter) symAddr(instr *ssa.IndexAddr, x []value, idx value) *symPtr {
	sidx, ok := idx.(sym)
	if !ok || !scalarElems(x) || !onlyLoadStore(instr) {
		return nil
	}
	if !i.inRange(sidx, len(x)) {
		runtimePanic(i, fmt.Sprintf("index out of range [symbolic] with length %d", len(x)))
	}
	return &symPtr{elems: x, idx: sidx}
}

// atomicHook models interference by other threads on an atomic variable: with the
// parameter atomic_interference = k, before each of the first k atomic operations of a
// path another thread may have raised the (unsigned 64-bit) variable by an arbitrary
// amount (rely condition: others only increase it, without wrapping).
func (i *interpreter) atomicHook(p *value) {
	if i.atomicAdversary != nil {
		i.atomicAdversary(p)
	}
	if i.ps == nil || i.params["atomic_interference"] <= 0 || i.interfered >= i.params["atomic_interference"] {
		return
	}
	cur, ok := (*p).(uint64)
	var ct *Term
	if ok {
		ct = i.tt().Const(64, cur)
	} else if s, isSym := (*p).(sym); isSym && s.k == types.Uint64 {
		ct = s.t
	} else {
		return
	}
	i.interfered++
	tt := i.tt()
	d := i.ps.fresh("u64", "interference", 64)
	sum := tt.Bin("bvadd", ct, d)
	i.ps.assume(tt.Cmp("ule", ct, sum))                            // no wrap
	i.ps.assume(tt.Cmp("ult", sum, tt.Const(64, uint64(1)<<63))) // counters stay far from 2^64
	*p = mkval(sum, types.Uint64)
}

type fnInfo struct {
	name     string
	ext      externalFn
	statName string
}

type deferred struct {
	fn    value
	args  []value
	instr *ssa.Defer
	tail  *deferred
}

type frame struct {
	i                *interpreter
	caller           *frame
	fn               *ssa.Function
	block, prevBlock *ssa.BasicBlock
	env              map[ssa.Value]value // dynamic values of SSA variables
	locals           []value
	defers           *deferred
	result           value
	panicking        bool
	panic            interface{}
	phitemps         []value // temporaries for parallel phi assignment
	tolerant         bool    // package initialiser: a failing instruction yields a zero value
}

func (fr *frame) get(key ssa.Value) value {
	switch key := key.(type) {
	case nil:
		// Hack; simplifies handling of optional attributes
		// such as ssa.Slice.{Low,High}.
		return nil
	case *ssa.Function, *ssa.Builtin:
		return key
	case *ssa.Const:
		return constValue(key)
	case *ssa.Global:
		return fr.i.globalAddr(key)
	}
	if r, ok := fr.env[key]; ok {
		return r
	}
	panic(fmt.Sprintf("get: no value for %T: %v", key, key.Name()))
}

// runDefer runs a deferred call d.
// It always returns normally, but may set or clear fr.panic.
func (fr *frame) runDefer(d *deferred) {
	if fr.i.mode&EnableTracing != 0 {
		fmt.Fprintf(os.Stderr, "%s: invoking deferred function call\n",
			fr.i.prog.Fset.Position(d.instr.Pos()))
	}
	var ok bool
	defer func() {
		if !ok {
			// Deferred call created a new state of panic.
			r := recover()
			switch r.(type) {
			case pathEnd, engineError, goKill:
				panic(r)
			}
			fr.panicking = true
			fr.panic = r
		}
	}()
	call(fr.i, fr, d.instr.Pos(), d.fn, d.args)
	ok = true
}

// runDefers executes fr's deferred function calls in LIFO order.
//
// On entry, fr.panicking indicates a state of panic; if
// true, fr.panic contains the panic value.
//
// On completion, if a deferred call started a panic, or if no
// deferred call recovered from a previous state of panic, then
// runDefers itself panics after the last deferred call has run.
//
// If there was no initial state of panic, or it was recovered from,
// runDefers returns normally.
func (fr *frame) runDefers() {
	for d := fr.defers; d != nil; d = d.tail {
		fr.runDefer(d)
	}
	fr.defers = nil
	if fr.panicking {
		panic(fr.panic) // new panic, or still panicking
	}
}

// lookupMethod returns the method set for type typ, which may be one
// of the interpreter's fake types.
func lookupMethod(i *interpreter, typ types.Type, meth *types.Func) *ssa.Function {
	switch typ {
	case rtypeType:
		return i.rtypeMethods[meth.Id()]
	case errorType:
		return i.errorMethods[meth.Id()]
	}
	return i.prog.LookupMethod(typ, meth.Pkg(), meth.Name())
}

// visitInstr interprets a single ssa.Instruction within the activation
// record frame.  It returns a continuation value indicating where to
// read the next instruction from.
func visitInstr(fr *frame, instr ssa.Instruction) continuation {
	switch instr := instr.(type) {
	case *ssa.DebugRef:
		// no-op

	case *ssa.UnOp:
		fr.env[instr] = unop(fr.i, instr, fr.get(instr.X))

	case *ssa.BinOp:
		fr.env[instr] = binop(fr.i, instr.Op, instr.X.Type(), fr.get(instr.X), fr.get(instr.Y))

	case *ssa.Call:
		fn, args := prepareCall(fr, &instr.Call)
		fr.env[instr] = call(fr.i, fr, instr.Pos(), fn, args)

	case *ssa.ChangeInterface:
		fr.env[instr] = fr.get(instr.X)

	case *ssa.ChangeType:
		fr.env[instr] = fr.get(instr.X) // (can't fail)

	case *ssa.Convert:
		fr.env[instr] = conv(fr.i, instr.Type(), instr.X.Type(), fr.get(instr.X))

	case *ssa.SliceToArrayPointer:
		fr.env[instr] = sliceToArrayPointer(instr.Type(), instr.X.Type(), fr.get(instr.X))

	case *ssa.MakeInterface:
		fr.env[instr] = iface{t: instr.X.Type(), v: fr.get(instr.X)}

	case *ssa.Extract:
		fr.env[instr] = fr.get(instr.Tuple).(tuple)[instr.Index]

	case *ssa.Slice:
		fr.env[instr] = slice(fr.i, fr.get(instr.X), fr.get(instr.Low), fr.get(instr.High), fr.get(instr.Max))

	case *ssa.Return:
		switch len(instr.Results) {
		case 0:
		case 1:
			fr.result = fr.get(instr.Results[0])
		default:
			var res []value
			for _, r := range instr.Results {
				res = append(res, fr.get(r))
			}
			fr.result = tuple(res)
		}
		fr.block = nil
		return kReturn

	case *ssa.RunDefers:
		fr.runDefers()

	case *ssa.Panic:
		panic(targetPanic{v: fr.get(instr.X)})

	case *ssa.Send:
		fr.i.chanSend(fr.get(instr.Chan), fr.get(instr.X))

	case *ssa.Store:
		if sp, ok := fr.get(instr.Addr).(*symPtr); ok {
			fr.i.storeSymPtr(sp, fr.get(instr.Val))
			break
		}
		addr := fr.get(instr.Addr).(*value)
		if addr == nil {
			runtimePanic(fr.i, "invalid memory address or nil pointer dereference")
		}
		store(mustDeref(instr.Addr.Type()), addr, fr.get(instr.Val))

	case *ssa.If:
		succ := 1
		if fr.i.truth(fr.get(instr.Cond)) {
			succ = 0
		}
		fr.prevBlock, fr.block = fr.block, fr.block.Succs[succ]
		return kJump

	case *ssa.Jump:
		fr.prevBlock, fr.block = fr.block, fr.block.Succs[0]
		return kJump

	case *ssa.Defer:
		fn, args := prepareCall(fr, &instr.Call)
		defers := &fr.defers
		if into := fr.get(instr.DeferStack); into != nil {
			defers = into.(**deferred)
		}
		*defers = &deferred{
			fn:    fn,
			args:  args,
			instr: instr,
			tail:  *defers,
		}

	case *ssa.Go:
		fn, args := prepareCall(fr, &instr.Call)
		fr.i.spawn(fr, instr, fn, args)

	case *ssa.MakeChan:
		fr.env[instr] = fr.i.makeChan(asInt64(fr.get(instr.Size)))

	case *ssa.Alloc:
		var addr *value
		if instr.Heap {
			// new
			addr = new(value)
			fr.env[instr] = addr
		} else {
			// local
			addr = fr.env[instr].(*value)
		}
		*addr = zero(mustDeref(instr.Type()))

	case *ssa.MakeSlice:
		capv := fr.i.concretizeInt(fr.get(instr.Cap), 0, 64, "make cap")
		lenv := fr.i.concretizeInt(fr.get(instr.Len), 0, 64, "make len")
		if lenv < 0 || capv < lenv || capv > 1<<28 {
			runtimePanic(fr.i, "makeslice: len out of range")
		}
		slice := make([]value, capv)
		tElt := instr.Type().Underlying().(*types.Slice).Elem()
		for i := range slice {
			slice[i] = zero(tElt)
		}
		fr.env[instr] = slice[:lenv]

	case *ssa.MakeMap:
		var reserve int64
		if instr.Reserve != nil {
			reserve = asInt64(fr.get(instr.Reserve))
		}
		if !fitsInt(reserve, fr.i.sizes) {
			panic(fmt.Sprintf("ssa.MakeMap.Reserve value %d does not fit in int", reserve))
		}
		fr.env[instr] = makeMap(instr.Type().Underlying().(*types.Map).Key(), reserve)
		_ = reserve

	case *ssa.Range:
		fr.env[instr] = rangeIter(fr, fr.get(instr.X), instr.X.Type())

	case *ssa.Next:
		fr.env[instr] = fr.get(instr.Iter).(iter).next()

	case *ssa.FieldAddr:
		p := fr.get(instr.X).(*value)
		if p == nil {
			runtimePanic(fr.i, "invalid memory address or nil pointer dereference")
		}
		fr.env[instr] = &(*p).(structure)[instr.Field]

	case *ssa.Field:
		fr.env[instr] = fr.get(instr.X).(structure)[instr.Field]

	case *ssa.IndexAddr:
		x := fr.get(instr.X)
		idx := fr.get(instr.Index)
		switch x := x.(type) {
		case []value:
			if sp := fr.i.symAddr(instr, x, idx); sp != nil {
				fr.env[instr] = sp
			} else {
				fr.env[instr] = &x[fr.i.index(idx, len(x))]
			}
		case *value: // *array
			if x == nil {
				runtimePanic(fr.i, "invalid memory address or nil pointer dereference")
			}
			a := (*x).(array)
			if sp := fr.i.symAddr(instr, a, idx); sp != nil {
				fr.env[instr] = sp
			} else {
				fr.env[instr] = &a[fr.i.index(idx, len(a))]
			}
		default:
			panic(fmt.Sprintf("unexpected x type in IndexAddr: %T", x))
		}

	case *ssa.Index:
		x := fr.get(instr.X)
		idx := fr.get(instr.Index)

		if sidx, ok := idx.(sym); ok {
			var elems []value
			switch x := x.(type) {
			case array:
				elems = x
			case string, symstr:
				elems = strBytes(x)
			}
			if scalarElems(elems) {
				if !fr.i.inRange(sidx, len(elems)) {
					runtimePanic(fr.i, fmt.Sprintf("index out of range [symbolic] with length %d", len(elems)))
				}
				fr.env[instr] = fr.i.selectElem(elems, sidx)
				break
			}
		}
		switch x := x.(type) {
		case array:
			fr.env[instr] = x[fr.i.index(idx, len(x))]
		case string:
			fr.env[instr] = x[fr.i.index(idx, len(x))]
		case symstr:
			fr.env[instr] = x.b[fr.i.index(idx, len(x.b))]
		default:
			panic(fmt.Sprintf("unexpected x type in Index: %T", x))
		}

	case *ssa.Lookup:
		fr.env[instr] = lookup(fr.i, instr, fr.get(instr.X), fr.get(instr.Index))

	case *ssa.MapUpdate:
		m := fr.get(instr.Map)
		key := fr.get(instr.Key)
		v := fr.get(instr.Value)
		switch m := m.(type) {
		case *omap:
			if m == nil {
				panic(targetPanic{v: iface{fr.i.runtimeErrorString, "assignment to entry in nil map"}, runtime: true})
			}
			m.insert(fr.i, key, v)
		default:
			panic(fmt.Sprintf("illegal map type: %T", m))
		}

	case *ssa.TypeAssert:
		fr.env[instr] = typeAssert(fr.i, instr, fr.get(instr.X).(iface))

	case *ssa.MakeClosure:
		var bindings []value
		for _, binding := range instr.Bindings {
			bindings = append(bindings, fr.get(binding))
		}
		fr.env[instr] = &closure{instr.Fn.(*ssa.Function), bindings}

	case *ssa.Phi:
		log.Fatal("unreachable") // phis are processed at block entry

	case *ssa.Select:
		fr.env[instr] = fr.i.doSelect(fr, instr)

	default:
		panic(fmt.Sprintf("unexpected instruction: %T", instr))
	}

	// if val, ok := instr.(ssa.Value); ok {
	// 	fmt.Println(toString(fr.env[val])) // debugging
	// }

	return kNext
}

// prepareCall determines the function value and argument values for a
// function call in a Call, Go or Defer instruction, performing
// interface method lookup if needed.
func prepareCall(fr *frame, call *ssa.CallCommon) (fn value, args []value) {
	v := fr.get(call.Value)
	if call.Method == nil {
		// Function call.
		fn = v
	} else {
		// Interface method invocation.
		recv := v.(iface)
		if recv.t == nil {
			runtimePanic(fr.i, "invalid memory address or nil pointer dereference (method call on nil interface)")
		}
		if f := lookupMethod(fr.i, recv.t, call.Method); f == nil {
			// Unreachable in well-typed programs.
			panic(fmt.Sprintf("method set for dynamic type %v does not contain %s", recv.t, call.Method))
		} else {
			fn = f
		}
		args = append(args, recv.v)
	}
	for _, arg := range call.Args {
		args = append(args, fr.get(arg))
	}
	return
}

// call interprets a call to a function (function, builtin or closure)
// fn with arguments args, returning its result.
// callpos is the position of the callsite.
func call(i *interpreter, caller *frame, callpos token.Pos, fn value, args []value) value {
	switch fn := fn.(type) {
	case *ssa.Function:
		if fn == nil {
			runtimePanic(i, "invalid memory address or nil pointer dereference (call of nil func)")
		}
		return callSSA(i, caller, callpos, fn, args, nil)
	case *closure:
		return callSSA(i, caller, callpos, fn.Fn, args, fn.Env)
	case *ssa.Builtin:
		return callBuiltin(caller, callpos, fn, args)
	}
	panic(fmt.Sprintf("cannot call %T", fn))
}

func loc(fset *token.FileSet, pos token.Pos) string {
	if pos == token.NoPos {
		return ""
	}
	return " at " + fset.Position(pos).String()
}

// callSSA interprets a call to function fn with arguments args,
// and lexical environment env, returning its result.
// callpos is the position of the callsite.
func callSSA(i *interpreter, caller *frame, callpos token.Pos, fn *ssa.Function, args []value, env []value) value {
	if i.mode&EnableTracing != 0 {
		fset := fn.Prog.Fset
		// TODO(adonovan): fix: loc() lies for external functions.
		fmt.Fprintf(os.Stderr, "Entering %s%s.\n", fn, loc(fset, fn.Pos()))
		suffix := ""
		if caller != nil {
			suffix = ", resuming " + caller.fn.String() + loc(fset, callpos)
		}
		defer fmt.Fprintf(os.Stderr, "Leaving %s%s.\n", fn, suffix)
	}
	fr := &frame{
		i:      i,
		caller: caller, // for panic/recover
		fn:     fn,
	}
	info := i.fnInfos[fn]
	if info == nil {
		info = &fnInfo{}
		if fn.Parent() == nil {
			info.name = fn.String()
			info.ext = externals[info.name]
		}
		// make sure the owning package is completely built before running any of its
		// code (another worker may be in the middle of building it); a function that is
		// modelled by the engine is never run; package reflect, whose bodies go/ssa cannot
		// all build, is not built for its modelled functions
		if info.ext == nil || fn.Pkg == nil || fn.Pkg.Pkg.Path() != "reflect" {
			ensureBuilt(fn)
		}
		pk := fn.Pkg
		if pk == nil && fn.Origin() != nil {
			pk = fn.Origin().Pkg
		}
		if pk != nil && pk.Pkg != nil && (strings.HasPrefix(pk.Pkg.Path(), "github.com/MichaelMure/git-bug") || strings.HasPrefix(pk.Pkg.Path(), "github.com/go-git/go-git/v5/config")) {
			info.statName = stripTypeArgs(fn.String())
		}
		i.fnInfos[fn] = info
	}
	if info.ext != nil {
		if i.bypass == fn {
			i.bypass = nil
		} else {
			if i.mode&EnableTracing != 0 {
				fmt.Fprintln(os.Stderr, "\t(external)")
			}
			return info.ext(fr, args)
		}
	}
	if fn.Blocks == nil {
		panic(engineError("no code for function: " + fn.String()))
	}
	if info.statName != "" && i.ps != nil {
		i.stats.Funcs[info.statName]++
	}
	i.depth++
	if i.depth > 3000 {
		panic(engineError("call depth exceeded in " + fn.String()))
	}
	defer func() { i.depth-- }()

	// generic function body?
	if fn.TypeParams().Len() > 0 && len(fn.TypeArgs()) == 0 {
		panic("interp requires ssa.BuilderMode to include InstantiateGenerics to execute generics")
	}

	if i.tolerantInit == fn {
		fr.tolerant = true
		i.tolerantInit = nil
	}
	fr.env = make(map[ssa.Value]value)
	fr.block = fn.Blocks[0]
	fr.locals = make([]value, len(fn.Locals))
	for i, l := range fn.Locals {
		fr.locals[i] = zero(mustDeref(l.Type()))
		fr.env[l] = &fr.locals[i]
	}
	for i, p := range fn.Params {
		fr.env[p] = args[i]
	}
	for i, fv := range fn.FreeVars {
		fr.env[fv] = env[i]
	}
	for fr.block != nil {
		runFrame(fr)
	}
	// Destroy the locals to avoid accidental use after return.
	for i := range fn.Locals {
		fr.locals[i] = bad{}
	}
	return fr.result
}

// runFrame executes SSA instructions starting at fr.block and
// continuing until a return, a panic, or a recovered panic.
//
// After a panic, runFrame panics.
//
// After a normal return, fr.result contains the result of the call
// and fr.block is nil.
//
// A recovered panic in a function without named return parameters
// (NRPs) becomes a normal return of the zero value of the function's
// result type.
//
// After a recovered panic in a function with NRPs, fr.result is
// undefined and fr.block contains the block at which to resume
// control.
var debugPanics = os.Getenv("GOBMC_PANICS") != ""

func runFrame(fr *frame) {
	defer func() {
		if fr.block == nil {
			return // normal return
		}
		if fr.i.mode&DisableRecover != 0 {
			return // let interpreter crash
		}
		r := recover()
		switch r := r.(type) {
		case pathEnd, engineError, goKill:
			if ee, isEE := r.(engineError); isEE && debugPanics {
				fmt.Fprintf(os.Stderr, "gobmc: engine error %.120s passes %s\n", string(ee), fr.fn)
			}
			panic(r)
		case targetPanic:
		case nil:
		default:
			// a host-level panic inside the interpreter is an engine problem, not a
			// panic of the code under test
			if ee, ok := r.(runtime.Error); ok {
				panic(engineError(fmt.Sprintf("host runtime error in %s: %v\n%s", fr.fn, ee, debug.Stack())))
			}
			panic(engineError(fmt.Sprintf("interpreter panic in %s: %v\n%s", fr.fn, r, debug.Stack())))
		}
		fr.panicking = true
		fr.panic = r
		if debugPanics {
			fmt.Fprintf(os.Stderr, "gobmc: panic %v passes %s (block %v)\n", r, fr.fn, fr.block)
		}
		if fr.i.mode&EnableTracing != 0 {
			fmt.Fprintf(os.Stderr, "Panicking: %T %v.\n", fr.panic, fr.panic)
		}
		fr.runDefers()
		fr.block = fr.fn.Recover
	}()

	for {
		if fr.i.mode&EnableTracing != 0 {
			fmt.Fprintf(os.Stderr, ".%s:\n", fr.block)
		}

		nonPhis := executePhis(fr)
		for _, instr := range nonPhis {
			if fr.i.mode&EnableTracing != 0 {
				if v, ok := instr.(ssa.Value); ok {
					fmt.Fprintln(os.Stderr, "\t", v.Name(), "=", instr)
				} else {
					fmt.Fprintln(os.Stderr, "\t", instr)
				}
			}
			if ps := fr.i.ps; ps != nil {
				ps.steps++
				if ps.steps > ps.maxSteps {
					panic(engineError(fmt.Sprintf("step budget exceeded (%d) in %s", ps.maxSteps, fr.fn)))
				}
			}
			if fr.tolerant {
				if visitTolerant(fr, instr) == kReturn {
					return
				}
				continue
			}
			if visitInstr(fr, instr) == kReturn {
				return
			}
			// Inv: kNext (continue) or kJump (last instr)
		}
	}
}

// executePhis executes the phi-nodes at the start of the current
// block and returns the non-phi instructions.
func executePhis(fr *frame) []ssa.Instruction {
	firstNonPhi := -1
	for i, instr := range fr.block.Instrs {
		if _, ok := instr.(*ssa.Phi); !ok {
			firstNonPhi = i
			break
		}
	}
	// Inv: 0 <= firstNonPhi; every block contains a non-phi.

	nonPhis := fr.block.Instrs[firstNonPhi:]
	if firstNonPhi > 0 {
		phis := fr.block.Instrs[:firstNonPhi]
		// Execute parallel assignment of phis.
		//
		// See "the swap problem" in Briggs et al's "Practical Improvements
		// to the Construction and Destruction of SSA Form" for discussion.
		predIndex := slices.Index(fr.block.Preds, fr.prevBlock)
		fr.phitemps = fr.phitemps[:0]
		for _, phi := range phis {
			phi := phi.(*ssa.Phi)
			if fr.i.mode&EnableTracing != 0 {
				fmt.Fprintln(os.Stderr, "\t", phi.Name(), "=", phi)
			}
			fr.phitemps = append(fr.phitemps, fr.get(phi.Edges[predIndex]))
		}
		for i, phi := range phis {
			fr.env[phi.(*ssa.Phi)] = fr.phitemps[i]
		}
	}
	return nonPhis
}

// doRecover implements the recover() built-in.
func doRecover(caller *frame) value {
	// recover() must be exactly one level beneath the deferred
	// function (two levels beneath the panicking function) to
	// have any effect.  Thus we ignore both "defer recover()" and
	// "defer f() -> g() -> recover()".
	if caller.i.mode&DisableRecover == 0 &&
		caller != nil && !caller.panicking &&
		caller.caller != nil && caller.caller.panicking {
		caller.caller.panicking = false
		p := caller.caller.panic
		caller.caller.panic = nil

		// TODO(adonovan): support runtime.Goexit.
		switch p := p.(type) {
		case targetPanic:
			// The target program explicitly called panic().
			return p.v
		case runtime.Error:
			// The interpreter encountered a runtime error.
			return iface{caller.i.runtimeErrorString, p.Error()}
		case string:
			// The interpreter explicitly called panic().
			return iface{caller.i.runtimeErrorString, p}
		default:
			panic(fmt.Sprintf("unexpected panic type %T in target call to recover()", p))
		}
	}
	return iface{}
}


// stripTypeArgs removes [...] instantiation arguments from a function name.
func stripTypeArgs(s string) string {
	var sb strings.Builder
	depth := 0
	for _, c := range s {
		switch {
		case c == '[':
			depth++
		case c == ']':
			depth--
		case depth == 0:
			sb.WriteRune(c)
		}
	}
	return sb.String()
}

// visitTolerant executes one instruction of a package initialiser; if it cannot be
// executed (unsupported runtime facility) its result is the zero value and
// initialisation continues, so that unrelated globals still get their values.
func visitTolerant(fr *frame, instr ssa.Instruction) (k continuation) {
	defer func() {
		if r := recover(); r != nil {
			if _, isKill := r.(goKill); isKill {
				panic(r)
			}
			if v, ok := instr.(ssa.Value); ok {
				func() {
					defer func() { recover() }()
					fr.env[v] = zero(v.Type())
				}()
			}
			fr.i.stats.InitFailures = append(fr.i.stats.InitFailures, fmt.Sprintf("%s: %v", fr.fn, firstLineOf(fmt.Sprint(r))))
			switch instr.(type) {
			case *ssa.If, *ssa.Jump, *ssa.Return, *ssa.Panic:
				// control flow cannot be skipped: give up on this initialiser
				fr.block = nil
				k = kReturn
			default:
				k = kNext
			}
		}
	}()
	return visitInstr(fr, instr)
}

func firstLineOf(s string) string {
	if i := strings.IndexByte(s, '\n'); i >= 0 {
		s = s[:i]
	}
	if len(s) > 200 {
		s = s[:200]
	}
	return s
}
