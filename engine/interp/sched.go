package interp

// Cooperative goroutine scheduler (see chan.go). Host goroutines are used only as
// coroutines: exactly one holds the baton at any time.

import (
	"fmt"
)

type goKill struct{}

type schedState struct {
	gs       []*gor
	cur      *gor
	abort    interface{} // engine abort or uncaught target panic raised in a non-main goroutine
	progress int64
	idle     int // consecutive yields without progress
}

func (i *interpreter) schedInit() {
	main := &gor{id: 0, resume: make(chan struct{})}
	i.sched = &schedState{gs: []*gor{main}, cur: main}
}

// schedShutdown kills every parked goroutine at the end of a path.
func (i *interpreter) schedShutdown() {
	s := i.sched
	if s == nil {
		return
	}
	for _, g := range s.gs[1:] {
		if !g.done && g.started {
			g.kill = true
			g.resume <- struct{}{}
			<-g.exited
		}
	}
	i.sched = nil
}

func (i *interpreter) goSpawn(fn value, args []value) {
	s := i.sched
	if s == nil {
		panic(engineError("go statement outside a path"))
	}
	alive := 0
	for _, c := range s.gs {
		if !c.done {
			alive++
		}
	}
	if alive > 64 || len(s.gs) > 4096 {
		panic(engineError("too many goroutines"))
	}
	g := &gor{id: len(s.gs), resume: make(chan struct{}), fn: fn, args: args, exited: make(chan struct{})}
	s.gs = append(s.gs, g)
	g.started = true
	go func() {
		defer close(g.exited)
		<-g.resume
		if g.kill {
			g.done = true
			return
		}
		func() {
			defer func() {
				r := recover()
				g.done = true
				switch r := r.(type) {
				case nil:
				case goKill:
					g.killed = true
				default:
					if s.abort == nil {
						s.abort = r
					}
				}
			}()
			call(i, nil, 0, g.fn, g.args)
		}()
		if g.killed {
			return
		}
		// hand the baton on; if we are aborting go straight to main
		i.handoff(g, true)
	}()
}

// handoff passes the baton from g to the next goroutine. When finished is true g does
// not wait to be resumed.
func (i *interpreter) handoff(g *gor, finished bool) {
	s := i.sched
	var next *gor
	if s.abort != nil {
		next = s.gs[0]
	} else {
		n := len(s.gs)
		for k := 1; k <= n; k++ {
			c := s.gs[(g.id+k)%n]
			if !c.done {
				next = c
				break
			}
		}
	}
	if next == nil || next == g {
		if finished {
			// nobody left: cannot happen while main is alive
			return
		}
		return
	}
	s.cur = next
	next.resume <- struct{}{}
	if finished {
		return
	}
	<-g.resume
	if g.kill {
		panic(goKill{})
	}
	if g.id == 0 && s.abort != nil {
		a := s.abort
		s.abort = nil
		panic(a)
	}
}

// yield is called by a goroutine that cannot make progress.
func (i *interpreter) yield(why string) {
	s := i.sched
	if s == nil {
		panic(engineError("blocking operation outside a path: " + why))
	}
	g := s.cur
	alive := 0
	for _, c := range s.gs {
		if !c.done {
			alive++
		}
	}
	s.idle++
	if s.idle > 4*alive+8 {
		panic(engineError(fmt.Sprintf("deadlock: all %d goroutines blocked (%s)", alive, why)))
	}
	if ps := i.ps; ps != nil {
		ps.steps += 10
		if ps.steps > ps.maxSteps {
			panic(engineError("step budget exceeded while blocked: " + why))
		}
	}
	if alive <= 1 {
		panic(engineError("deadlock: the only goroutine is blocked (" + why + ")"))
	}
	i.handoff(g, false)
}

// madeProgress is called by successful synchronisation operations.
func (i *interpreter) madeProgress() {
	if i.sched != nil {
		i.sched.idle = 0
	}
}
