package interp

// Symbolic scalars and strings on top of the concrete value model.
//
//   sym     a bool or integer whose value is an SMT term (kind = static basic kind)
//   symstr  a string of concrete length whose bytes may be symbolic

import (
	"fmt"
	"go/token"
	"go/types"

	"golang.org/x/tools/go/ssa"
)

type sym struct {
	t *Term
	k types.BasicKind
}

type symstr struct {
	b []value // each: uint8 or sym{k: Uint8}
}

func kindWidth(k types.BasicKind) int {
	switch k {
	case types.Bool, types.UntypedBool:
		return 0
	case types.Int8, types.Uint8:
		return 8
	case types.Int16, types.Uint16:
		return 16
	case types.Int32, types.Uint32, types.UntypedRune:
		return 32
	case types.Int, types.Int64, types.Uint, types.Uint64, types.Uintptr, types.UntypedInt:
		return 64
	}
	panic(engineError(fmt.Sprintf("kindWidth: unsupported kind %v", k)))
}

func kindSigned(k types.BasicKind) bool {
	switch k {
	case types.Int, types.Int8, types.Int16, types.Int32, types.Int64, types.UntypedInt, types.UntypedRune:
		return true
	}
	return false
}

func kindName(k types.BasicKind) string {
	switch k {
	case types.Bool:
		return "bool"
	case types.Int:
		return "int"
	case types.Int8:
		return "i8"
	case types.Int16:
		return "i16"
	case types.Int32:
		return "i32"
	case types.Int64:
		return "i64"
	case types.Uint:
		return "uint"
	case types.Uint8:
		return "u8"
	case types.Uint16:
		return "u16"
	case types.Uint32:
		return "u32"
	case types.Uint64:
		return "u64"
	case types.Uintptr:
		return "uintptr"
	}
	return "?"
}

// concrete scalar -> (kind, bits)
func scalarBits(v value) (types.BasicKind, uint64, bool) {
	switch x := v.(type) {
	case bool:
		if x {
			return types.Bool, 1, true
		}
		return types.Bool, 0, true
	case int:
		return types.Int, uint64(x), true
	case int8:
		return types.Int8, uint64(x), true
	case int16:
		return types.Int16, uint64(x), true
	case int32:
		return types.Int32, uint64(x), true
	case int64:
		return types.Int64, uint64(x), true
	case uint:
		return types.Uint, uint64(x), true
	case uint8:
		return types.Uint8, uint64(x), true
	case uint16:
		return types.Uint16, uint64(x), true
	case uint32:
		return types.Uint32, uint64(x), true
	case uint64:
		return types.Uint64, x, true
	case uintptr:
		return types.Uintptr, uint64(x), true
	}
	return 0, 0, false
}

// bitsToValue builds the concrete Go value of kind k from bits.
func bitsToValue(k types.BasicKind, b uint64) value {
	switch k {
	case types.Bool:
		return b&1 == 1
	case types.Int:
		return int(b)
	case types.Int8:
		return int8(b)
	case types.Int16:
		return int16(b)
	case types.Int32:
		return int32(b)
	case types.Int64:
		return int64(b)
	case types.Uint:
		return uint(b)
	case types.Uint8:
		return uint8(b)
	case types.Uint16:
		return uint16(b)
	case types.Uint32:
		return uint32(b)
	case types.Uint64:
		return b
	case types.Uintptr:
		return uintptr(b)
	}
	panic(engineError(fmt.Sprintf("bitsToValue: kind %v", k)))
}

func isSym(v value) bool {
	_, ok := v.(sym)
	return ok
}

// mkval wraps a term as a value, concretising constants.
func mkval(t *Term, k types.BasicKind) value {
	if t.isConst() {
		return bitsToValue(k, t.val)
	}
	return sym{t, k}
}

func (i *interpreter) tt() *termTable {
	if i.ps == nil {
		panic(engineError("symbolic value outside a path"))
	}
	return i.ps.tt
}

// termOf returns the term and kind of a scalar value.
func (i *interpreter) termOf(v value) (*Term, types.BasicKind) {
	if s, ok := v.(sym); ok {
		return s.t, s.k
	}
	k, b, ok := scalarBits(v)
	if !ok {
		panic(engineError(fmt.Sprintf("termOf: not a scalar: %T", v)))
	}
	return i.tt().Const(kindWidth(k), b), k
}

// truth turns a bool-or-sym value into a Go bool, forking on symbolic conditions.
func (i *interpreter) truth(v value) bool {
	switch v := v.(type) {
	case bool:
		return v
	case sym:
		return i.ps.branch(v.t)
	}
	panic(engineError(fmt.Sprintf("truth: %T", v)))
}

func (i *interpreter) vAnd(a, b value) value {
	if x, ok := a.(bool); ok {
		if !x {
			return false
		}
		return b
	}
	if y, ok := b.(bool); ok {
		if !y {
			return false
		}
		return a
	}
	return mkval(i.tt().And(a.(sym).t, b.(sym).t), types.Bool)
}

func (i *interpreter) vOr(a, b value) value {
	if x, ok := a.(bool); ok {
		if x {
			return true
		}
		return b
	}
	if y, ok := b.(bool); ok {
		if y {
			return true
		}
		return a
	}
	return mkval(i.tt().Or(a.(sym).t, b.(sym).t), types.Bool)
}

func (i *interpreter) vNot(a value) value {
	if x, ok := a.(bool); ok {
		return !x
	}
	return mkval(i.tt().Not(a.(sym).t), types.Bool)
}

func runtimePanic(i *interpreter, msg string) {
	panic(targetPanic{v: iface{i.runtimeErrorString, "runtime error: " + msg}, runtime: true})
}

// symBinop implements binary operators when at least one operand is symbolic.
func (i *interpreter) symBinop(op token.Token, x, y value) value {
	tt := i.tt()
	tx, kx := i.termOf(x)
	ty, ky := i.termOf(y)
	switch op {
	case token.SHL, token.SHR:
		w := tx.w
		if kindSigned(ky) {
			neg := tt.Cmp("slt", ty, tt.Const(ty.w, 0))
			if i.ps.branch(neg) {
				runtimePanic(i, "negative shift amount")
			}
		}
		var amt *Term
		switch {
		case ty.w == w:
			amt = ty
		case ty.w < w:
			amt = tt.ZExt(w, ty)
		default:
			big := tt.Not(tt.Cmp("ult", ty, tt.Const(ty.w, uint64(w))))
			amt = tt.Ite(big, tt.Const(w, uint64(w)), tt.Extract(w-1, 0, ty))
		}
		if op == token.SHL {
			return mkval(tt.Bin("bvshl", tx, amt), kx)
		}
		if kindSigned(kx) {
			return mkval(tt.Bin("bvashr", tx, amt), kx)
		}
		return mkval(tt.Bin("bvlshr", tx, amt), kx)
	}
	if tx.w != ty.w {
		panic(engineError(fmt.Sprintf("symBinop %s: width mismatch %v %v", op, kx, ky)))
	}
	k := kx
	signed := kindSigned(k)
	switch op {
	case token.ADD:
		return mkval(tt.Bin("bvadd", tx, ty), k)
	case token.SUB:
		return mkval(tt.Bin("bvsub", tx, ty), k)
	case token.MUL:
		return mkval(tt.Bin("bvmul", tx, ty), k)
	case token.QUO, token.REM:
		if i.ps.branch(tt.Cmp("eq", ty, tt.Const(ty.w, 0))) {
			runtimePanic(i, "integer divide by zero")
		}
		var o string
		switch {
		case op == token.QUO && signed:
			o = "bvsdiv"
		case op == token.QUO:
			o = "bvudiv"
		case signed:
			o = "bvsrem"
		default:
			o = "bvurem"
		}
		return mkval(tt.Bin(o, tx, ty), k)
	case token.AND:
		return mkval(tt.Bin("bvand", tx, ty), k)
	case token.OR:
		return mkval(tt.Bin("bvor", tx, ty), k)
	case token.XOR:
		return mkval(tt.Bin("bvxor", tx, ty), k)
	case token.AND_NOT:
		return mkval(tt.Bin("bvand", tx, tt.Un("bvnot", ty)), k)
	case token.EQL:
		return mkval(tt.Cmp("eq", tx, ty), types.Bool)
	case token.NEQ:
		return mkval(tt.Not(tt.Cmp("eq", tx, ty)), types.Bool)
	case token.LSS:
		if signed {
			return mkval(tt.Cmp("slt", tx, ty), types.Bool)
		}
		return mkval(tt.Cmp("ult", tx, ty), types.Bool)
	case token.LEQ:
		if signed {
			return mkval(tt.Cmp("sle", tx, ty), types.Bool)
		}
		return mkval(tt.Cmp("ule", tx, ty), types.Bool)
	case token.GTR:
		if signed {
			return mkval(tt.Cmp("slt", ty, tx), types.Bool)
		}
		return mkval(tt.Cmp("ult", ty, tx), types.Bool)
	case token.GEQ:
		if signed {
			return mkval(tt.Cmp("sle", ty, tx), types.Bool)
		}
		return mkval(tt.Cmp("ule", ty, tx), types.Bool)
	}
	panic(engineError(fmt.Sprintf("symBinop: unsupported op %s", op)))
}

func (i *interpreter) symUnop(op token.Token, x sym) value {
	tt := i.tt()
	switch op {
	case token.SUB:
		return mkval(tt.Un("bvneg", x.t), x.k)
	case token.XOR:
		return mkval(tt.Un("bvnot", x.t), x.k)
	case token.NOT:
		return mkval(tt.Not(x.t), types.Bool)
	}
	panic(engineError(fmt.Sprintf("symUnop: unsupported op %s", op)))
}

// symConv converts a symbolic integer to another integer kind.
func (i *interpreter) symConv(dst types.BasicKind, x sym) value {
	tt := i.tt()
	switch dst {
	case types.Float32, types.Float64, types.Complex64, types.Complex128, types.String:
		panic(engineError("conversion of a symbolic integer to float/string"))
	}
	if dst == types.UnsafePointer {
		panic(engineError("conversion of a symbolic integer to unsafe.Pointer"))
	}
	w := kindWidth(dst)
	if x.k == types.Bool {
		panic(engineError("conversion of symbolic bool"))
	}
	var t *Term
	switch {
	case w == x.t.w:
		t = x.t
	case w < x.t.w:
		t = tt.Extract(w-1, 0, x.t)
	case kindSigned(x.k):
		t = tt.SExt(w, x.t)
	default:
		t = tt.ZExt(w, x.t)
	}
	return mkval(t, dst)
}

// concretize forks over the feasible values of a symbolic integer (bounded by limit
// alternatives) and returns the concrete value on this path.
func (i *interpreter) concretizeInt(v value, lo, hi int64, what string) int64 {
	s, ok := v.(sym)
	if !ok {
		return asInt64(v)
	}
	tt := i.tt()
	for c := lo; c <= hi; c++ {
		if i.ps.branch(tt.Cmp("eq", s.t, tt.Const(s.t.w, uint64(c)))) {
			return c
		}
	}
	return hi + 1 // out of the enumerated range (caller treats as out-of-bounds)
}

// ---------------------------------------------------------------------------
// strings

func mkstr(b []value) value {
	for _, e := range b {
		if _, ok := e.(uint8); !ok {
			cp := make([]value, len(b))
			copy(cp, b)
			return symstr{cp}
		}
	}
	bs := make([]byte, len(b))
	for j, e := range b {
		bs[j] = e.(uint8)
	}
	return string(bs)
}

func isStr(v value) bool {
	switch v.(type) {
	case string, symstr:
		return true
	}
	return false
}

func strLen(v value) int {
	switch s := v.(type) {
	case string:
		return len(s)
	case symstr:
		if seqHasDec(s.b) {
			panic(engineError("concrete length of a string with a decimal segment"))
		}
		return len(s.b)
	}
	panic(engineError(fmt.Sprintf("strLen: %T", v)))
}

// strBytes returns the bytes of a string value as a fresh []value.
func strBytes(v value) []value {
	switch s := v.(type) {
	case string:
		r := make([]value, len(s))
		for j := 0; j < len(s); j++ {
			r[j] = s[j]
		}
		return r
	case symstr:
		r := make([]value, len(s.b))
		copy(r, s.b)
		return r
	}
	panic(engineError(fmt.Sprintf("strBytes: %T", v)))
}

func strAt(v value, j int) value {
	switch s := v.(type) {
	case string:
		return s[j]
	case symstr:
		return s.b[j]
	}
	panic(engineError(fmt.Sprintf("strAt: %T", v)))
}

func strSlice(v value, l, h int) value {
	switch s := v.(type) {
	case string:
		return s[l:h]
	case symstr:
		return mkstr(s.b[l:h])
	}
	panic(engineError(fmt.Sprintf("strSlice: %T", v)))
}

func strConcat(a, b value) value {
	if x, ok := a.(string); ok {
		if y, ok := b.(string); ok {
			return x + y
		}
	}
	return mkstr(append(strBytes(a), strBytes(b)...))
}

func (i *interpreter) byteEq(a, b value) value {
	if x, ok := a.(uint8); ok {
		if y, ok := b.(uint8); ok {
			return x == y
		}
	}
	tt := i.tt()
	ta, _ := i.termOf(a)
	tb, _ := i.termOf(b)
	return mkval(tt.Cmp("eq", ta, tb), types.Bool)
}

func (i *interpreter) strEq(a, b value) value {
	if x, ok := a.(string); ok {
		if y, ok := b.(string); ok {
			return x == y
		}
	}
	if hasDec(a) || hasDec(b) {
		return i.decEq(a, b)
	}
	if strLen(a) != strLen(b) {
		return false
	}
	var r value = true
	for j := 0; j < strLen(a); j++ {
		r = i.vAnd(r, i.byteEq(strAt(a, j), strAt(b, j)))
		if r == false {
			return false
		}
	}
	return r
}

// strLess returns a < b (strict) or a <= b as a bool-or-sym.
func (i *interpreter) strLess(a, b value, orEqual bool) value {
	if x, ok := a.(string); ok {
		if y, ok := b.(string); ok {
			if orEqual {
				return x <= y
			}
			return x < y
		}
	}
	if hasDec(a) || hasDec(b) {
		panic(engineError("ordering comparison of strings with decimal segments"))
	}
	tt := i.tt()
	la, lb := strLen(a), strLen(b)
	n := la
	if lb < n {
		n = lb
	}
	// result when the common prefix is equal
	var tail *Term
	if orEqual {
		tail = tt.Bool(la <= lb)
	} else {
		tail = tt.Bool(la < lb)
	}
	for j := n - 1; j >= 0; j-- {
		ta, _ := i.termOf(strAt(a, j))
		tb, _ := i.termOf(strAt(b, j))
		tail = tt.Ite(tt.Cmp("ult", ta, tb), tt.Bool(true),
			tt.Ite(tt.Cmp("ult", tb, ta), tt.Bool(false), tail))
	}
	return mkval(tail, types.Bool)
}

func (i *interpreter) strBinop(op token.Token, x, y value) value {
	switch op {
	case token.ADD:
		return strConcat(x, y)
	case token.EQL:
		return i.strEq(x, y)
	case token.NEQ:
		return i.vNot(i.strEq(x, y))
	case token.LSS:
		return i.strLess(x, y, false)
	case token.LEQ:
		return i.strLess(x, y, true)
	case token.GTR:
		return i.strLess(y, x, false)
	case token.GEQ:
		return i.strLess(y, x, true)
	}
	panic(engineError(fmt.Sprintf("strBinop: unsupported op %s", op)))
}

// renderUnder renders an observed value under a model (for encoder validation).
func renderUnder(v value, m map[string]uint64) string {
	memo := make(map[*Term]uint64)
	var r func(v value) string
	r = func(v value) string {
		switch x := v.(type) {
		case sym:
			bits := x.t.eval(m, memo)
			return fmt.Sprint(bitsToValue(x.k, bits))
		case symstr:
			var bs []byte
			for _, e := range x.b {
				switch e := e.(type) {
				case uint8:
					bs = append(bs, e)
				case sym:
					bs = append(bs, byte(e.t.eval(m, memo)))
				case decSeg:
					bs = append(bs, []byte(fmt.Sprint(e.t.eval(m, memo)))...)
				}
			}
			return fmt.Sprintf("%q", string(bs))
		case string:
			return fmt.Sprintf("%q", x)
		case iface:
			if x.t == nil {
				return "<nil>"
			}
			return r(x.v)
		case []value:
			s := "["
			for j, e := range x {
				if j > 0 {
					s += " "
				}
				s += r(e)
			}
			return s + "]"
		case bool, int, int8, int16, int32, int64, uint, uint8, uint16, uint32, uint64, uintptr:
			return fmt.Sprint(x)
		}
		return fmt.Sprintf("<%T>", v)
	}
	return r(v)
}

// ---------------------------------------------------------------------------
// symbolic element pointers and table reads

// symPtr is the address of elems[idx] for a symbolic, in-range idx; only loads and
// stores of scalar elements go through it.
type symPtr struct {
	elems []value
	idx   sym
}

func scalarElems(xs []value) bool {
	for _, e := range xs {
		switch e.(type) {
		case sym, bool, int, int8, int16, int32, int64, uint, uint8, uint16, uint32, uint64, uintptr:
		default:
			return false
		}
	}
	return len(xs) > 0
}

// inRange forks on idx <u n; returns false on the out-of-range side.
func (i *interpreter) inRange(idx sym, n int) bool {
	tt := i.tt()
	if idx.t.w < 64 && uint64(n) > mask(idx.t.w) {
		if kindSigned(idx.k) {
			return !i.ps.branch(tt.Cmp("slt", idx.t, tt.Const(idx.t.w, 0)))
		}
		return true
	}
	return i.ps.branch(tt.Cmp("ult", idx.t, tt.Const(idx.t.w, uint64(n))))
}

// selectElem builds elems[idx] as one term (no forking); idx is known in range.
func (i *interpreter) selectElem(elems []value, idx sym) value {
	tt := i.tt()
	type grp struct {
		t    *Term
		idxs []int
	}
	var groups []*grp
	byID := map[int]*grp{}
	var kind types.BasicKind
	for j, e := range elems {
		t, k := i.termOf(e)
		kind = k
		g := byID[t.id]
		if g == nil {
			g = &grp{t: t}
			byID[t.id] = g
			groups = append(groups, g)
		}
		g.idxs = append(g.idxs, j)
	}
	// default = largest group
	def := groups[0]
	for _, g := range groups {
		if len(g.idxs) > len(def.idxs) {
			def = g
		}
	}
	acc := def.t
	for _, g := range groups {
		if g == def {
			continue
		}
		cond := tt.Bool(false)
		// contiguous runs become range tests
		for a := 0; a < len(g.idxs); {
			b := a
			for b+1 < len(g.idxs) && g.idxs[b+1] == g.idxs[b]+1 {
				b++
			}
			var c *Term
			if b-a >= 2 {
				lo := tt.Const(idx.t.w, uint64(g.idxs[a]))
				hi := tt.Const(idx.t.w, uint64(g.idxs[b]))
				c = tt.And(tt.Cmp("ule", lo, idx.t), tt.Cmp("ule", idx.t, hi))
				a = b + 1
			} else {
				c = tt.Cmp("eq", idx.t, tt.Const(idx.t.w, uint64(g.idxs[a])))
				a++
			}
			cond = tt.Or(cond, c)
		}
		acc = tt.Ite(cond, g.t, acc)
	}
	return mkval(acc, kind)
}

func (i *interpreter) loadSymPtr(p *symPtr) value {
	return i.selectElem(p.elems, p.idx)
}

func (i *interpreter) storeSymPtr(p *symPtr, v value) {
	tt := i.tt()
	tv, k := i.termOf(v)
	for j := range p.elems {
		te, _ := i.termOf(p.elems[j])
		c := tt.Cmp("eq", p.idx.t, tt.Const(p.idx.t.w, uint64(j)))
		p.elems[j] = mkval(tt.Ite(c, tv, te), k)
	}
}

// onlyLoadStore reports whether every use of the address instruction is a load or a
// store through it.
func onlyLoadStore(instr ssa.Instruction) bool {
	v, ok := instr.(ssa.Value)
	if !ok {
		return false
	}
	refs := v.Referrers()
	if refs == nil {
		return false
	}
	for _, r := range *refs {
		switch r := r.(type) {
		case *ssa.UnOp:
			if r.Op != token.MUL {
				return false
			}
		case *ssa.Store:
			if r.Addr != v {
				return false
			}
		case *ssa.DebugRef:
		default:
			return false
		}
	}
	return true
}

// encodeRuneSym UTF-8 encodes a symbolic rune, forking over the encoding length.
func (i *interpreter) encodeRuneSym(r sym) []value {
	tt := i.tt()
	t := r.t // 32-bit
	c := func(v uint64) *Term { return tt.Const(32, v) }
	b8 := func(x *Term) value { return mkval(tt.Extract(7, 0, x), types.Uint8) }
	shr := func(x *Term, n uint64) *Term { return tt.Bin("bvlshr", x, c(n)) }
	and := func(x *Term, m uint64) *Term { return tt.Bin("bvand", x, c(m)) }
	or := func(x *Term, m uint64) *Term { return tt.Bin("bvor", x, c(m)) }
	runeError := []value{uint8(0xEF), uint8(0xBF), uint8(0xBD)}
	if i.ps.branch(tt.Cmp("ult", t, c(0x80))) {
		return []value{b8(t)}
	}
	if i.ps.branch(tt.Cmp("ult", t, c(0x800))) {
		return []value{b8(or(shr(t, 6), 0xC0)), b8(or(and(t, 0x3F), 0x80))}
	}
	// surrogates and out of range (including negative = large unsigned)
	if i.ps.branch(tt.And(tt.Cmp("ule", c(0xD800), t), tt.Cmp("ule", t, c(0xDFFF)))) {
		return runeError
	}
	if i.ps.branch(tt.Cmp("ult", t, c(0x10000))) {
		return []value{b8(or(shr(t, 12), 0xE0)), b8(or(and(shr(t, 6), 0x3F), 0x80)), b8(or(and(t, 0x3F), 0x80))}
	}
	if i.ps.branch(tt.Cmp("ule", t, c(0x10FFFF))) {
		return []value{b8(or(shr(t, 18), 0xF0)), b8(or(and(shr(t, 12), 0x3F), 0x80)), b8(or(and(shr(t, 6), 0x3F), 0x80)), b8(or(and(t, 0x3F), 0x80))}
	}
	return runeError
}
