package interp

// Intrinsics: the harness runtime (zzverif/rt), and models of library functions whose
// real bodies are assembly, unsafe, reflective or scheduler-dependent.

import (
	"fmt"
	"os"
	"go/token"
	"go/types"
	"encoding/json"
	"reflect"
	"strings"

	"golang.org/x/tools/go/ssa"
)

const rtPath = "github.com/MichaelMure/git-bug/zzverif/rt"

func init() {
	for k, v := range map[string]externalFn{
		rtPath + ".Symbolic":     func(fr *frame, a []value) value { return true },
		rtPath + ".NondetBool":   extNondet(types.Bool),
		rtPath + ".NondetByte":   extNondet(types.Uint8),
		rtPath + ".NondetInt":    extNondet(types.Int),
		rtPath + ".NondetInt32":  extNondet(types.Int32),
		rtPath + ".NondetInt64":  extNondet(types.Int64),
		rtPath + ".NondetUint32": extNondet(types.Uint32),
		rtPath + ".NondetUint64": extNondet(types.Uint64),
		rtPath + ".Choose":       extChoose,
		rtPath + ".Assume":       extAssume,
		rtPath + ".Assert":       extAssert,
		rtPath + ".Cover":        extCover,
		rtPath + ".Observe":      extObserve,
		rtPath + ".Param":        extParam,
		rtPath + ".MapOrder":     extMapOrder,
		rtPath + ".Concrete":     extConcrete,
		rtPath + ".isControl":    func(fr *frame, a []value) value { return false },
		rtPath + ".Unsupported":  extUnsupported,
		rtPath + ".And":          func(fr *frame, a []value) value { return fr.i.vAnd(a[0], a[1]) },
		rtPath + ".Or":           func(fr *frame, a []value) value { return fr.i.vOr(a[0], a[1]) },
		rtPath + ".Not":          func(fr *frame, a []value) value { return fr.i.vNot(a[0]) },
		rtPath + ".Implies":      func(fr *frame, a []value) value { return fr.i.vOr(fr.i.vNot(a[0]), a[1]) },
		rtPath + ".Debug":        extDebug,
		rtPath + ".OnSortSlice":  func(fr *frame, a []value) value { fr.i.onSortSlice = a[0]; return nil },
		rtPath + ".EndPath":      func(fr *frame, a []value) value { panic(pathEnd{"harness-end"}) },
		rtPath + ".Ite":          extIte,
		rtPath + ".IteU64":       extIte,

		"fmt.Sprintf":  extSprintf,
		"fmt.Errorf":   extErrorf,
		"fmt.Sprint":   extSprint,
		"fmt.Sprintln": extSprintln,
		"fmt.Fprintf":  extFprintf,
		"fmt.Fprintln": extFprintln,
		"fmt.Fprint":   extFprint,
		"fmt.Printf":   extDiscardPrint,
		"fmt.Println":  extDiscardPrint,
		"fmt.Print":    extDiscardPrint,

		"strings.Contains":                 extContains,
		"strings.HasPrefix":                extHasPrefix,
		"strings.HasSuffix":                extHasSuffix,
		"internal/stringslite.HasPrefix":   extHasPrefix,
		"strings.ToLower":                  extToLower,
		"strings.ToUpper":                  extToUpper,
		"internal/bytealg.IndexByte":       extIndexByte,
		"internal/bytealg.IndexByteString": extIndexByte,
		"internal/bytealg.Count":           extCountByte,
		"internal/bytealg.CountString":     extCountByte,
		"internal/bytealg.Compare":         extCompare,
		"internal/bytealg.CompareString":   extCompare,
		"internal/bytealg.Index":           extIndex,
		"internal/bytealg.IndexString":     extIndex,
		"internal/bytealg.Equal":           extEqualBytes,
		"internal/bytealg.MakeNoZero":      extMakeNoZero,
		"internal/stringslite.Clone":       func(fr *frame, a []value) value { return a[0] },
		"strings.Clone":                    func(fr *frame, a []value) value { return a[0] },
		"(*strings.Builder).String":        extBuilderString,
		"(*strings.Builder).copyCheck":     func(fr *frame, a []value) value { return nil },
		"internal/abi.NoEscape":            func(fr *frame, a []value) value { return a[0] },
		"internal/abi.Escape":              func(fr *frame, a []value) value { return a[0] },

		"runtime.Callers":       func(fr *frame, a []value) value { return 0 },
		"runtime.Caller":        func(fr *frame, a []value) value { return tuple{uintptr(0), "", 0, false} },
		"runtime.SetFinalizer":  func(fr *frame, a []value) value { return nil },
		"runtime.KeepAlive":     func(fr *frame, a []value) value { return nil },
		"runtime.Gosched":       func(fr *frame, a []value) value { return nil },
		"runtime.NumGoroutine":  func(fr *frame, a []value) value { return 1 },
		"time.Sleep": func(fr *frame, a []value) value {
			// sleeping advances the model clock (M-TIME counts seconds)
			if d, ok := a[0].(int64); ok && d > 0 {
				fr.i.nowTick += (d + 999_999_999) / 1_000_000_000
			}
			return nil
		},
		"time.Now":              extTimeNow,
		"time.now":              func(fr *frame, a []value) value { return tuple{int64(1700000000), int32(0), int64(0)} },
		"time.runtimeNano":      func(fr *frame, a []value) value { return int64(0) },
		"os.Getpid":             func(fr *frame, a []value) value { return 4242 },
		"os.Getwd":              func(fr *frame, a []value) value { return tuple{"/host", iface{}} },
		"os.Getenv":             func(fr *frame, a []value) value { return "" },
		"os.LookupEnv":          func(fr *frame, a []value) value { return tuple{"", false} },
		"syscall.Getenv":        func(fr *frame, a []value) value { return tuple{"", false} },
		"crypto/rand.Read":      extRandRead,
		"reflect.DeepEqual":     extDeepEqual,
		// go:linkname pulls
		"mime/multipart.readMIMEHeader": extLinkname("net/textproto", "readMIMEHeader"),
		// GODEBUG settings: all at their defaults
		"(*internal/godebug.Setting).Value":         func(fr *frame, a []value) value { return "" },
		"(*internal/godebug.Setting).IncNonDefault": func(fr *frame, a []value) value { return nil },
		"(*crypto/rand.reader).Read": func(fr *frame, a []value) value { return extRandRead(fr, a[1:]) },
		"crypto/internal/boring/sig.StandardCrypto": func(fr *frame, a []value) value { return nil },
		"crypto/internal/boring/sig.BoringCrypto":   func(fr *frame, a []value) value { return nil },
		"crypto/internal/boring/sig.FIPSOnly":       func(fr *frame, a []value) value { return nil },
		"encoding/json.Marshal": extJSONMarshal,
		"encoding/json.Unmarshal": extJSONUnmarshal,
		"strconv.ParseUint":     extParseUint,
		"strconv.Atoi":          extAtoi,
		"fmt.Sscanf":            extSscanf,
		"sort.Slice":            extSortSlice,
		"sort.SliceStable":      extSortSlice,
		"errors.Is":             extErrorsIs,
		"errors.As":             extErrorsAs,
		"internal/reflectlite.TypeOf": ext۰reflect۰TypeOf,
		"(reflect.rtype).Comparable":  func(fr *frame, a []value) value { return types.Comparable(a[0].(rtype).t) },

		"(*sync.Mutex).Lock":      extMutexLock,
		"(*sync.Mutex).Unlock":    extMutexUnlock,
		"(*sync.Mutex).TryLock":   extMutexTryLock,
		"(*sync.RWMutex).Lock":    extRWLock,
		"(*sync.RWMutex).Unlock":  extRWUnlock,
		"(*sync.RWMutex).RLock":   extRWRLock,
		"(*sync.RWMutex).RUnlock": extRWRUnlock,
		"(*sync.WaitGroup).Add":   extWGAdd,
		"(*sync.WaitGroup).Done":  func(fr *frame, a []value) value { return extWGAdd(fr, []value{a[0], -1}) },
		"(*sync.WaitGroup).Wait":  extWGWait,
		"(*sync.Once).Do":         extOnceDo,
		"(*sync.Pool).Get":        extPoolGet,
		"(*sync.Pool).Put":        func(fr *frame, a []value) value { return nil },

		"sync/atomic.AddInt32":   extAtomicAdd,
		"sync/atomic.AddInt64":   extAtomicAdd,
		"sync/atomic.AddUint32":  extAtomicAdd,
		"sync/atomic.AddUint64":  extAtomicAdd,
		"sync/atomic.AddUintptr": extAtomicAdd,
		"sync/atomic.LoadInt32":  extAtomicLoad, "sync/atomic.LoadInt64": extAtomicLoad,
		"sync/atomic.LoadUint32": extAtomicLoad, "sync/atomic.LoadUint64": extAtomicLoad,
		"sync/atomic.LoadUintptr": extAtomicLoad, "sync/atomic.LoadPointer": extAtomicLoad,
		"sync/atomic.StoreInt32": extAtomicStore, "sync/atomic.StoreInt64": extAtomicStore,
		"sync/atomic.StoreUint32": extAtomicStore, "sync/atomic.StoreUint64": extAtomicStore,
		"sync/atomic.StoreUintptr": extAtomicStore, "sync/atomic.StorePointer": extAtomicStore,
		"sync/atomic.SwapInt32": extAtomicSwap, "sync/atomic.SwapInt64": extAtomicSwap,
		"sync/atomic.SwapUint32": extAtomicSwap, "sync/atomic.SwapUint64": extAtomicSwap,
		"sync/atomic.SwapUintptr": extAtomicSwap, "sync/atomic.SwapPointer": extAtomicSwap,
		"sync/atomic.CompareAndSwapInt32": extAtomicCAS, "sync/atomic.CompareAndSwapInt64": extAtomicCAS,
		"sync/atomic.CompareAndSwapUint32": extAtomicCAS, "sync/atomic.CompareAndSwapUint64": extAtomicCAS,
		"sync/atomic.CompareAndSwapUintptr": extAtomicCAS, "sync/atomic.CompareAndSwapPointer": extAtomicCAS,
	} {
		externals[k] = v
	}
}

// AdversaryHook, when set by a harness through rt.Param("atomic_interference"), is
// consulted by the atomic models (see C05).

// ---------------------------------------------------------------------------
// rt

func extNondet(k types.BasicKind) externalFn {
	return func(fr *frame, args []value) value {
		ps := fr.i.ps
		if ps == nil {
			panic(engineError("rt.Nondet outside a path"))
		}
		w := kindWidth(k)
		t := ps.fresh(kindName(k), "", w)
		return sym{t, k}
	}
}

// Choose(n): a symbolic value in [0,n) made concrete by forking.
func extChoose(fr *frame, args []value) value {
	i := fr.i
	n := int(asInt64(args[0]))
	if n <= 0 {
		panic(pathEnd{"choose-empty"})
	}
	if n == 1 {
		// still consume a replay slot so native replay stays aligned
		t := i.ps.fresh("choose", "", 8)
		i.ps.assume(i.tt().Cmp("eq", t, i.tt().Const(8, 0)))
		return 0
	}
	if n > 250 {
		panic(engineError("rt.Choose: n too large"))
	}
	tt := i.tt()
	t := i.ps.fresh("choose", "", 8)
	i.ps.assume(tt.Cmp("ult", t, tt.Const(8, uint64(n))))
	for c := 0; c < n-1; c++ {
		if i.ps.branch(tt.Cmp("eq", t, tt.Const(8, uint64(c)))) {
			return c
		}
	}
	return n - 1
}

func extAssume(fr *frame, args []value) value {
	t, _ := fr.i.termOf(args[0])
	fr.i.ps.assume(t)
	return nil
}

func extAssert(fr *frame, args []value) value {
	t, _ := fr.i.termOf(args[0])
	label, ok := args[1].(string)
	if !ok {
		panic(engineError("rt.Assert: label must be a concrete string"))
	}
	if fr.i.twinLabel != "" && fr.i.twinLabel == label {
		t = fr.i.tt().Bool(false)
	}
	fr.i.ps.assert(t, label)
	return nil
}

func extCover(fr *frame, args []value) value {
	fr.i.ps.covers[args[0].(string)] = true
	return nil
}

func extObserve(fr *frame, args []value) value {
	v := args[1]
	if it, ok := v.(iface); ok {
		v = it.v
	}
	fr.i.ps.obs = append(fr.i.ps.obs, observation{args[0].(string), v})
	return nil
}

func extParam(fr *frame, args []value) value {
	if v, ok := fr.i.params[args[0].(string)]; ok {
		return int(v)
	}
	return args[1]
}

func extMapOrder(fr *frame, args []value) value {
	fr.i.mapOrder = int(asInt64(args[0]))
	return nil
}

// Concrete(x, lo, hi) forks over the values of x in [lo,hi].
func extConcrete(fr *frame, args []value) value {
	lo, hi := asInt64(args[1]), asInt64(args[2])
	v := fr.i.concretizeInt(args[0], lo, hi, "rt.Concrete")
	if v > hi {
		panic(pathEnd{"concrete-out-of-range"})
	}
	return int(v)
}

func extUnsupported(fr *frame, args []value) value {
	panic(engineError("harness: " + args[0].(string)))
}

// Ite(c, a, b) builds a value without forking.
func extIte(fr *frame, args []value) value {
	i := fr.i
	if c, ok := args[0].(bool); ok {
		if c {
			return args[1]
		}
		return args[2]
	}
	tc, _ := i.termOf(args[0])
	ta, k := i.termOf(args[1])
	tb, _ := i.termOf(args[2])
	return mkval(i.tt().Ite(tc, ta, tb), k)
}

// ---------------------------------------------------------------------------
// method invocation helpers

func (i *interpreter) findMethod(t types.Type, name string) *ssa.Function {
	ms := i.prog.MethodSets.MethodSet(t)
	for j := 0; j < ms.Len(); j++ {
		sel := ms.At(j)
		if sel.Obj().Name() == name {
			return i.prog.MethodValue(sel)
		}
	}
	return nil
}

// invoke calls method name on the dynamic value of an interface; ok=false if absent.
func (i *interpreter) invoke(fr *frame, recv iface, name string, args ...value) (value, bool) {
	if recv.t == nil {
		return nil, false
	}
	fn := i.findMethod(recv.t, name)
	if fn == nil {
		return nil, false
	}
	all := append([]value{recv.v}, args...)
	return call(i, fr, 0, fn, all), true
}

// ---------------------------------------------------------------------------
// fmt

type fmtOpaque string

func (o fmtOpaque) Format(f fmt.State, verb rune) { f.Write([]byte(string(o))) }

type fmtErr struct{ s string }

func (e fmtErr) Error() string { return e.s }

type fmtMarkers struct {
	vals []value
}

func (m *fmtMarkers) mark(v value) string {
	m.vals = append(m.vals, v)
	return fmt.Sprintf("\x00S%d\x00", len(m.vals)-1)
}

// splice turns a formatted string containing markers into a string value.
func (m *fmtMarkers) splice(i *interpreter, s string) value {
	if len(m.vals) == 0 || !strings.Contains(s, "\x00S") {
		return s
	}
	var out []value
	for len(s) > 0 {
		j := strings.Index(s, "\x00S")
		if j < 0 {
			out = append(out, strBytes(s)...)
			break
		}
		out = append(out, strBytes(s[:j])...)
		rest := s[j+2:]
		e := strings.IndexByte(rest, 0)
		var n int
		fmt.Sscanf(rest[:e], "%d", &n)
		switch v := m.vals[n].(type) {
		case symstr:
			out = append(out, v.b...)
		case string:
			out = append(out, strBytes(v)...)
		case sym:
			switch d := i.decimalSeg(v).(type) {
			case symstr:
				out = append(out, d.b...)
			default:
				out = append(out, d)
			}
		}
		s = rest[e+1:]
	}
	return mkstr(out)
}

func (i *interpreter) nativeArg(fr *frame, m *fmtMarkers, a value) interface{} {
	it, ok := a.(iface)
	if !ok {
		return fmtOpaque(toString(a))
	}
	if it.t == nil {
		return nil
	}
	// error / Stringer
	if _, isBasic := it.v.(sym); !isBasic {
		for _, meth := range []string{"Error", "String"} {
			if fn := i.findMethod(it.t, meth); fn != nil && fn.Signature.Params().Len() == 0 && fn.Signature.Results().Len() == 1 {
				if b, ok := fn.Signature.Results().At(0).Type().Underlying().(*types.Basic); ok && b.Kind() == types.String {
					if p, isPtr := it.v.(*value); isPtr && p == nil {
						return fmtOpaque("<nil>")
					}
					res := call(i, fr, 0, fn, []value{it.v})
					switch r := res.(type) {
					case string:
						if meth == "Error" {
							return fmtErr{r}
						}
						return fmtOpaque(r)
					case symstr:
						return fmtOpaque(m.mark(r))
					}
				}
			}
		}
	}
	switch v := it.v.(type) {
	case bool, int, int8, int16, int32, int64, uint, uint8, uint16, uint32, uint64, uintptr, float32, float64, complex64, complex128, string:
		return v
	case symstr:
		return fmtOpaque(m.mark(v))
	case sym:
		if v.k == types.Bool {
			panic(engineError("fmt of a symbolic bool"))
		}
		return fmtOpaque(m.mark(v))
	case []value:
		if sl, ok := it.t.Underlying().(*types.Slice); ok {
			if b, ok := sl.Elem().Underlying().(*types.Basic); ok {
				switch b.Kind() {
				case types.Uint8:
					if s, ok := mkstr(v).(string); ok {
						return []byte(s)
					}
					return fmtOpaque(m.mark(mkstr(v)))
				case types.String:
					out := make([]string, len(v))
					for j, e := range v {
						if s, ok := e.(string); ok {
							out[j] = s
						} else {
							out[j] = m.mark(e)
						}
					}
					return out
				}
			}
		}
	case *value:
		if v == nil {
			return fmtOpaque("<nil>")
		}
		return fmtOpaque("0xc000012345")
	}
	return fmtOpaque(toString(it.v))
}

func (i *interpreter) nativeArgs(fr *frame, m *fmtMarkers, args value) []interface{} {
	var out []interface{}
	if args == nil {
		return out
	}
	for _, a := range args.([]value) {
		out = append(out, i.nativeArg(fr, m, a))
	}
	return out
}

func fmtString(v value) string {
	s, ok := v.(string)
	if !ok {
		panic(engineError("fmt: symbolic format string"))
	}
	return s
}

func extSprintf(fr *frame, args []value) value {
	m := &fmtMarkers{}
	na := fr.i.nativeArgs(fr, m, args[1])
	return m.splice(fr.i, fmt.Sprintf(fmtString(args[0]), na...))
}

func extSprint(fr *frame, args []value) value {
	m := &fmtMarkers{}
	return m.splice(fr.i, fmt.Sprint(fr.i.nativeArgs(fr, m, args[0])...))
}

func extSprintln(fr *frame, args []value) value {
	m := &fmtMarkers{}
	return m.splice(fr.i, fmt.Sprintln(fr.i.nativeArgs(fr, m, args[0])...))
}

func (i *interpreter) writeTo(fr *frame, w value, s value) value {
	res, ok := i.invoke(fr, w.(iface), "Write", strBytes(s))
	if !ok {
		panic(engineError("fmt.Fprint: writer has no Write method"))
	}
	return res
}

func extFprintf(fr *frame, args []value) value {
	m := &fmtMarkers{}
	na := fr.i.nativeArgs(fr, m, args[2])
	return fr.i.writeTo(fr, args[0], m.splice(fr.i, fmt.Sprintf(fmtString(args[1]), na...)))
}

func extFprintln(fr *frame, args []value) value {
	m := &fmtMarkers{}
	return fr.i.writeTo(fr, args[0], m.splice(fr.i, fmt.Sprintln(fr.i.nativeArgs(fr, m, args[1])...)))
}

func extFprint(fr *frame, args []value) value {
	m := &fmtMarkers{}
	return fr.i.writeTo(fr, args[0], m.splice(fr.i, fmt.Sprint(fr.i.nativeArgs(fr, m, args[1])...)))
}

func extDiscardPrint(fr *frame, args []value) value {
	return tuple{0, iface{}}
}

func (i *interpreter) namedType(pkg, name string) types.Type {
	p := i.prog.ImportedPackage(pkg)
	if p == nil {
		panic(engineError("package not loaded: " + pkg))
	}
	t := p.Type(name)
	if t == nil {
		panic(engineError("type not found: " + pkg + "." + name))
	}
	return t.Type()
}

func (i *interpreter) newError(msg value) value {
	t := i.namedType("errors", "errorString")
	var cell value = structure{msg}
	return iface{t: types.NewPointer(t), v: &cell}
}

func extErrorf(fr *frame, args []value) value {
	i := fr.i
	format := fmtString(args[0])
	m := &fmtMarkers{}
	var rawArgs []value
	if args[1] != nil {
		rawArgs = args[1].([]value)
	}
	na := i.nativeArgs(fr, m, args[1])
	// locate %w operands
	var wrapped []value
	argi := 0
	f2 := []byte(format)
	for p := 0; p < len(f2); p++ {
		if f2[p] != '%' {
			continue
		}
		p++
		for p < len(f2) && strings.IndexByte("+-# 0123456789.", f2[p]) >= 0 {
			p++
		}
		if p >= len(f2) {
			break
		}
		if f2[p] == '%' {
			continue
		}
		if f2[p] == 'w' {
			f2[p] = 'v'
			if argi < len(rawArgs) {
				wrapped = append(wrapped, rawArgs[argi])
			}
		}
		argi++
	}
	msg := m.splice(i, fmt.Sprintf(string(f2), na...))
	if len(wrapped) == 1 {
		if it, ok := wrapped[0].(iface); ok && it.t != nil {
			t := i.namedType("fmt", "wrapError")
			var cell value = structure{msg, it}
			return iface{t: types.NewPointer(t), v: &cell}
		}
	}
	return i.newError(msg)
}

// decimalSeg renders a symbolic integer as one decimal segment (non-negative values).
func (i *interpreter) decimalSeg(v sym) value {
	tt := i.tt()
	if kindSigned(v.k) {
		if i.ps.branch(tt.Cmp("slt", v.t, tt.Const(v.t.w, 0))) {
			// "-" followed by the magnitude
			return symstr{[]value{uint8('-'), decSeg{tt.Un("bvneg", tt.SExt(64, v.t))}}}
		}
	}
	return decSeg{tt.ZExt(64, v.t)}
}

// decimalOf renders a symbolic integer in decimal. Only values whose digit count is
// decided by forking over ranges are supported; bytes are then symbolic digits.
func (i *interpreter) decimalOf(v sym) []value {
	tt := i.tt()
	if kindSigned(v.k) {
		// negative values: fork on sign
		neg := tt.Cmp("slt", v.t, tt.Const(v.t.w, 0))
		if i.ps.branch(neg) {
			panic(engineError("decimal rendering of a negative symbolic integer"))
		}
	}
	t := tt.ZExt(64, v.t)
	// fork over digit count
	nd := 20
	pow := uint64(10)
	for d := 1; d < 20; d++ {
		if i.ps.branch(tt.Cmp("ult", t, tt.Const(64, pow))) {
			nd = d
			break
		}
		pow *= 10
	}
	out := make([]value, nd)
	cur := t
	for d := nd - 1; d >= 0; d-- {
		digit := tt.Bin("bvurem", cur, tt.Const(64, 10))
		out[d] = mkval(tt.Bin("bvadd", tt.Extract(7, 0, digit), tt.Const(8, '0')), types.Uint8)
		cur = tt.Bin("bvudiv", cur, tt.Const(64, 10))
	}
	return out
}

// ---------------------------------------------------------------------------
// bytealg

func seqOf(v value) []value {
	switch x := v.(type) {
	case []value:
		return x
	case string, symstr:
		return strBytes(x)
	}
	panic(engineError(fmt.Sprintf("seqOf: %T", v)))
}

func extIndexByte(fr *frame, args []value) value {
	s := seqOf(args[0])
	for j, b := range s {
		if fr.i.truth(fr.i.byteEq(b, args[1])) {
			return j
		}
	}
	return -1
}

func extCountByte(fr *frame, args []value) value {
	s := seqOf(args[0])
	n := 0
	for _, b := range s {
		if fr.i.truth(fr.i.byteEq(b, args[1])) {
			n++
		}
	}
	return n
}

func extCompare(fr *frame, args []value) value {
	i := fr.i
	a, b := mkstr(seqOf(args[0])), mkstr(seqOf(args[1]))
	if i.truth(i.strEq(a, b)) {
		return 0
	}
	if i.truth(i.strLess(a, b, false)) {
		return -1
	}
	return 1
}

func extEqualBytes(fr *frame, args []value) value {
	i := fr.i
	return i.truth(i.strEq(mkstr(seqOf(args[0])), mkstr(seqOf(args[1]))))
}

func extIndex(fr *frame, args []value) value {
	i := fr.i
	a, b := seqOf(args[0]), seqOf(args[1])
	if len(b) == 0 {
		return 0
	}
	bs := mkstr(b)
	for j := 0; j+len(b) <= len(a); j++ {
		if i.truth(i.strEq(mkstr(a[j:j+len(b)]), bs)) {
			return j
		}
	}
	return -1
}

func extMakeNoZero(fr *frame, args []value) value {
	n := asInt64(args[0])
	out := make([]value, n)
	for j := range out {
		out[j] = uint8(0)
	}
	return out
}

func extBuilderString(fr *frame, args []value) value {
	p := args[0].(*value)
	if p == nil {
		runtimePanic(fr.i, "invalid memory address or nil pointer dereference")
	}
	st := (*p).(structure)
	// type Builder struct { addr *Builder; buf []byte }
	buf, _ := st[1].([]value)
	return mkstr(buf)
}

// ---------------------------------------------------------------------------
// time

func extTimeNow(fr *frame, args []value) value {
	// time.Time{wall, ext, loc}: a fixed instant (wall clock is environment; harnesses
	// that depend on it replace it).
	const unixToInternal int64 = (1969*365 + 1969/4 - 1969/100 + 1969/400) * 86400
	fr.i.nowTick++
	return structure{uint64(0), int64(1700000000) + fr.i.nowTick + unixToInternal, (*value)(nil)}
}

// ---------------------------------------------------------------------------
// sort.Slice: insertion sort calling the real less closure

func extSortSlice(fr *frame, args []value) value {
	i := fr.i
	it := args[0].(iface)
	s, ok := it.v.([]value)
	if !ok {
		panic(engineError("sort.Slice: not a slice"))
	}
	elemT := it.t.Underlying().(*types.Slice).Elem()
	less := args[1]
	for a := 1; a < len(s); a++ {
		for b := a; b > 0; b-- {
			r := call(i, fr, 0, less, []value{b, b - 1})
			if !i.truth(r) {
				break
			}
			tmp := load(elemT, &s[b])
			store(elemT, &s[b], s[b-1])
			store(elemT, &s[b-1], tmp)
		}
	}
	if cb := i.onSortSlice; cb != nil {
		i.onSortSlice = nil
		call(i, fr, 0, cb, []value{it})
	}
	return nil
}

// ---------------------------------------------------------------------------
// errors.Is / errors.As

func extErrorsIs(fr *frame, args []value) value {
	i := fr.i
	err, target := args[0].(iface), args[1].(iface)
	if err.t == nil || target.t == nil {
		return err.t == nil && target.t == nil
	}
	return i.errorsIs(fr, err, target, 0)
}

func (i *interpreter) errorsIs(fr *frame, err, target iface, depth int) bool {
	if depth > 50 {
		panic(engineError("errors.Is: chain too deep"))
	}
	comparable := types.Comparable(target.t)
	for {
		if comparable && sameType(err.t, target.t) && i.truth(eqv(i, err.t, err.v, target.v)) {
			return true
		}
		if fn := i.findMethod(err.t, "Is"); fn != nil && fn.Signature.Params().Len() == 1 {
			if i.truth(call(i, fr, 0, fn, []value{err.v, target})) {
				return true
			}
		}
		fn := i.findMethod(err.t, "Unwrap")
		if fn == nil || fn.Signature.Params().Len() != 0 || fn.Signature.Results().Len() != 1 {
			return false
		}
		res := call(i, fr, 0, fn, []value{err.v})
		switch r := res.(type) {
		case iface:
			if r.t == nil {
				return false
			}
			err = r
		case []value:
			for _, e := range r {
				if ei := e.(iface); ei.t != nil && i.errorsIs(fr, ei, target, depth+1) {
					return true
				}
			}
			return false
		default:
			return false
		}
	}
}

func extErrorsAs(fr *frame, args []value) value {
	i := fr.i
	err, target := args[0].(iface), args[1].(iface)
	if err.t == nil {
		return false
	}
	if target.t == nil {
		panic(targetPanic{v: iface{i.runtimeErrorString, "errors: target cannot be nil"}})
	}
	pt, ok := target.t.Underlying().(*types.Pointer)
	if !ok {
		panic(targetPanic{v: iface{i.runtimeErrorString, "errors: target must be a non-nil pointer"}})
	}
	T := pt.Elem()
	dst := target.v.(*value)
	for depth := 0; depth < 50; depth++ {
		if it, isIface := T.Underlying().(*types.Interface); isIface {
			if types.Implements(err.t, it) {
				*dst = err
				return true
			}
		} else if types.Identical(err.t, T) {
			store(T, dst, err.v)
			return true
		}
		if fn := i.findMethod(err.t, "As"); fn != nil && fn.Signature.Params().Len() == 1 {
			if i.truth(call(i, fr, 0, fn, []value{err.v, target})) {
				return true
			}
		}
		fn := i.findMethod(err.t, "Unwrap")
		if fn == nil || fn.Signature.Params().Len() != 0 || fn.Signature.Results().Len() != 1 {
			return false
		}
		res := call(i, fr, 0, fn, []value{err.v})
		r, ok := res.(iface)
		if !ok || r.t == nil {
			return false
		}
		err = r
	}
	return false
}

// ---------------------------------------------------------------------------
// sync

type syncObj struct {
	locked  bool
	readers int
	wg      int64
	once    int // 0 not run, 1 running, 2 done
}

func (i *interpreter) syncOf(p value) *syncObj {
	ptr := p.(*value)
	if ptr == nil {
		runtimePanic(i, "invalid memory address or nil pointer dereference")
	}
	o := i.syncObjs[ptr]
	if o == nil {
		o = &syncObj{}
		i.syncObjs[ptr] = o
	}
	return o
}

func callerChain(fr *frame) string {
	var sb strings.Builder
	for f, n := fr, 0; f != nil && n < 12; f, n = f.caller, n+1 {
		if f.fn != nil {
			sb.WriteString(" <- " + f.fn.String())
		}
	}
	return sb.String()
}

func extMutexLock(fr *frame, args []value) value {
	o := fr.i.syncOf(args[0])
	for o.locked || o.readers > 0 {
		fr.i.yield("mutex lock" + callerChain(fr))
	}
	o.locked = true
	fr.i.madeProgress()
	return nil
}

func extMutexTryLock(fr *frame, args []value) value {
	o := fr.i.syncOf(args[0])
	if o.locked || o.readers > 0 {
		return false
	}
	o.locked = true
	return true
}

func extMutexUnlock(fr *frame, args []value) value {
	o := fr.i.syncOf(args[0])
	if !o.locked {
		panic(targetPanic{v: iface{fr.i.runtimeErrorString, "fatal error: sync: unlock of unlocked mutex"}, runtime: true})
	}
	o.locked = false
	fr.i.madeProgress()
	return nil
}

func extRWLock(fr *frame, args []value) value   { return extMutexLock(fr, args) }
func extRWUnlock(fr *frame, args []value) value { return extMutexUnlock(fr, args) }

func extRWRLock(fr *frame, args []value) value {
	o := fr.i.syncOf(args[0])
	for o.locked {
		fr.i.yield("rwmutex rlock")
	}
	o.readers++
	fr.i.madeProgress()
	return nil
}

func extRWRUnlock(fr *frame, args []value) value {
	o := fr.i.syncOf(args[0])
	if o.readers <= 0 {
		panic(targetPanic{v: iface{fr.i.runtimeErrorString, "fatal error: sync: RUnlock of unlocked RWMutex"}, runtime: true})
	}
	o.readers--
	fr.i.madeProgress()
	return nil
}

func extWGAdd(fr *frame, args []value) value {
	o := fr.i.syncOf(args[0])
	o.wg += asInt64(args[1])
	if o.wg < 0 {
		panic(targetPanic{v: iface{fr.i.runtimeErrorString, "sync: negative WaitGroup counter"}})
	}
	fr.i.madeProgress()
	return nil
}

func extWGWait(fr *frame, args []value) value {
	o := fr.i.syncOf(args[0])
	for o.wg > 0 {
		fr.i.yield("waitgroup wait")
	}
	return nil
}

func extOnceDo(fr *frame, args []value) value {
	o := fr.i.syncOf(args[0])
	for o.once == 1 {
		fr.i.yield("once")
	}
	if o.once == 2 {
		return nil
	}
	o.once = 1
	defer func() { o.once = 2 }()
	call(fr.i, fr, 0, args[1], nil)
	return nil
}

func extPoolGet(fr *frame, args []value) value {
	p := args[0].(*value)
	st := (*p).(structure)
	newFn := st[len(st)-1]
	switch f := newFn.(type) {
	case *ssa.Function:
		if f == nil {
			return iface{}
		}
	}
	return call(fr.i, fr, 0, newFn, nil)
}

// ---------------------------------------------------------------------------
// sync/atomic (sequential semantics; single deterministic schedule)

func atomicAddr(fr *frame, p value) *value {
	ptr := p.(*value)
	if ptr == nil {
		runtimePanic(fr.i, "invalid memory address or nil pointer dereference")
	}
	return ptr
}

func extAtomicAdd(fr *frame, args []value) value {
	p := atomicAddr(fr, args[0])
	fr.i.atomicHook(p)
	*p = binop(fr.i, token.ADD, nil, *p, args[1])
	return *p
}

func extAtomicLoad(fr *frame, args []value) value {
	p := atomicAddr(fr, args[0])
	fr.i.atomicHook(p)
	return *p
}

func extAtomicStore(fr *frame, args []value) value {
	p := atomicAddr(fr, args[0])
	fr.i.atomicHook(p)
	*p = args[1]
	return nil
}

func extAtomicSwap(fr *frame, args []value) value {
	p := atomicAddr(fr, args[0])
	fr.i.atomicHook(p)
	old := *p
	*p = args[1]
	return old
}

func extAtomicCAS(fr *frame, args []value) value {
	p := atomicAddr(fr, args[0])
	fr.i.atomicHook(p)
	var eq value
	switch old := args[1].(type) {
	case *value:
		eq = (*p).(*value) == old
	default:
		eq = eqv(fr.i, nil, *p, args[1])
	}
	if fr.i.truth(eq) {
		*p = args[2]
		return true
	}
	return false
}

// strings.Contains as one boolean term (no fork per position).
func extContains(fr *frame, args []value) value {
	i := fr.i
	s, sub := args[0], args[1]
	ls, lsub := strLen(s), strLen(sub)
	if lsub == 0 {
		return true
	}
	if _, ok := s.(string); ok {
		if _, ok := sub.(string); ok {
			return strings.Contains(s.(string), sub.(string))
		}
	}
	var r value = false
	for j := 0; j+lsub <= ls; j++ {
		r = i.vOr(r, i.strEq(strSlice(s, j, j+lsub), sub))
		if r == true {
			return true
		}
	}
	return r
}

// caseMap implements strings.ToLower/ToUpper for strings whose bytes are all provably
// ASCII as a per-byte ite; anything else runs the real function.
func caseMap(fr *frame, args []value, name string, lo, hi byte, delta int) value {
	i := fr.i
	if s, ok := args[0].(string); ok {
		if name == "ToLower" {
			return strings.ToLower(s)
		}
		return strings.ToUpper(s)
	}
	ss := args[0].(symstr)
	tt := i.tt()
	out := make([]value, len(ss.b))
	for j, e := range ss.b {
		switch c := e.(type) {
		case uint8:
			if c >= 0x80 {
				return i.callReal(fr, "strings", name, args)
			}
			if c >= lo && c <= hi {
				out[j] = uint8(int(c) + delta)
			} else {
				out[j] = c
			}
		case sym:
			if !i.ps.branch(tt.Cmp("ult", c.t, tt.Const(8, 0x80))) {
				return i.callReal(fr, "strings", name, args)
			}
			in := tt.And(tt.Cmp("ule", tt.Const(8, uint64(lo)), c.t), tt.Cmp("ule", c.t, tt.Const(8, uint64(hi))))
			out[j] = mkval(tt.Ite(in, tt.Bin("bvadd", c.t, tt.Const(8, uint64(uint8(delta)))), c.t), types.Uint8)
		}
	}
	return mkstr(out)
}

func extToLower(fr *frame, args []value) value { return caseMap(fr, args, "ToLower", 'A', 'Z', 32) }
func extToUpper(fr *frame, args []value) value { return caseMap(fr, args, "ToUpper", 'a', 'z', -32) }

// callReal runs the SSA body of pkg.name, bypassing the intrinsic of the same name.
func (i *interpreter) callReal(fr *frame, pkg, name string, args []value) value {
	p := i.prog.ImportedPackage(pkg)
	if p == nil {
		panic(engineError("package not loaded: " + pkg))
	}
	fn := p.Func(name)
	if fn == nil {
		panic(engineError("function not found: " + pkg + "." + name))
	}
	i.bypass = fn
	return callSSA(i, fr, 0, fn, args, nil)
}

// strconv.ParseUint / Atoi / fmt.Sscanf("%d") understand decimal segments; everything
// else runs the real code.
func extParseUint(fr *frame, args []value) value {
	if t, ok := asDecimal(args[0]); ok {
		base, bits := asInt64(args[1]), asInt64(args[2])
		if (base == 10 || base == 0) && (bits == 64 || bits == 0) {
			return tuple{mkval(t, types.Uint64), iface{}}
		}
		panic(engineError("ParseUint of a decimal segment with base/bitSize other than 10/64"))
	}
	if hasDec(args[0]) {
		panic(engineError("ParseUint of a string mixing bytes and a decimal segment"))
	}
	return fr.i.callReal(fr, "strconv", "ParseUint", args)
}

func extAtoi(fr *frame, args []value) value {
	if t, ok := asDecimal(args[0]); ok {
		tt := fr.i.tt()
		// values above MaxInt64 are range errors in the real Atoi
		if fr.i.ps.branch(tt.Cmp("slt", t, tt.Const(64, 0))) {
			panic(engineError("Atoi of a decimal segment above MaxInt64"))
		}
		return tuple{mkval(t, types.Int), iface{}}
	}
	if hasDec(args[0]) {
		panic(engineError("Atoi of a string mixing bytes and a decimal segment"))
	}
	return fr.i.callReal(fr, "strconv", "Atoi", args)
}

func extSscanf(fr *frame, args []value) value {
	i := fr.i
	format, ok := args[1].(string)
	var dsts []value
	if args[2] != nil {
		dsts = args[2].([]value)
	}
	if !ok || format != "%d" || len(dsts) != 1 {
		panic(engineError("fmt.Sscanf: only the \"%d\" form with one destination is modelled"))
	}
	dst := dsts[0].(iface)
	p, isPtr := dst.v.(*value)
	if !isPtr || p == nil {
		panic(engineError("fmt.Sscanf: destination is not a pointer"))
	}
	elem, ok2 := dst.t.Underlying().(*types.Pointer)
	if !ok2 {
		panic(engineError("fmt.Sscanf: destination is not a pointer"))
	}
	bk, ok3 := elem.Elem().Underlying().(*types.Basic)
	if !ok3 {
		panic(engineError("fmt.Sscanf: destination is not an integer"))
	}
	scanErr := func(msg string) value {
		return tuple{0, i.newError(msg)}
	}
	t, ok := asDecimal(args[0])
	if !ok {
		// a decimal segment followed by something that cannot extend its digits
		// ("<n>\n"): %d reads the segment and stops
		if ss, isSym := args[0].(symstr); isSym && len(ss.b) >= 2 {
			if d, isDec := ss.b[0].(decSeg); isDec && !seqHasDec(ss.b[1:]) {
				if isD, known := isDigitByte(ss.b[1]); known && !isD {
					t, ok = d.t, true
				}
			}
		}
	}
	if ok {
		if kindWidth(bk.Kind()) != 64 || kindSigned(bk.Kind()) {
			panic(engineError("fmt.Sscanf of a decimal segment into a non-uint64"))
		}
		*p = mkval(t, bk.Kind())
		return tuple{1, iface{}}
	}
	s, isConc := args[0].(string)
	if !isConc {
		panic(engineError("fmt.Sscanf of a string with symbolic bytes"))
	}
	// concrete input: use the real fmt natively
	switch bk.Kind() {
	case types.Uint64:
		var v uint64
		n, err := fmt.Sscanf(s, "%d", &v)
		if err != nil {
			return scanErr(err.Error())
		}
		*p = v
		return tuple{n, iface{}}
	case types.Int:
		var v int
		n, err := fmt.Sscanf(s, "%d", &v)
		if err != nil {
			return scanErr(err.Error())
		}
		*p = v
		return tuple{n, iface{}}
	}
	panic(engineError("fmt.Sscanf: unsupported destination kind"))
}

func extDebug(fr *frame, args []value) value {
	if os.Getenv("GOBMC_DEBUG") == "" {
		return nil
	}
	m := &fmtMarkers{}
	var parts []string
	if args[1] != nil {
		for _, a := range args[1].([]value) {
			na := fr.i.nativeArg(fr, m, a)
			parts = append(parts, fmt.Sprintf("%v", na))
		}
	}
	fmt.Fprintf(os.Stderr, "DEBUG %s: %s\n", toString(args[0]), strings.Join(parts, " | "))
	return nil
}

// strings.HasPrefix as one boolean term; strings with decimal segments are compared on
// their leading concrete part.
func extHasPrefix(fr *frame, args []value) value {
	i := fr.i
	s, p := args[0], args[1]
	if hasDec(p) {
		panic(engineError("HasPrefix: prefix with a decimal segment"))
	}
	lp := strLen(p)
	if lp == 0 {
		return true
	}
	if hasDec(s) {
		elems := s.(symstr).b
		lead := leadingConcrete(elems)
		n := lp
		if lead < n {
			n = lead
		}
		r := i.strEq(mkstr(elems[:n]), strSlice(p, 0, n))
		if r == false {
			return false
		}
		if lp <= lead {
			return r
		}
		panic(engineError("HasPrefix: prefix extends into a decimal segment"))
	}
	if strLen(s) < lp {
		return false
	}
	return i.strEq(strSlice(s, 0, lp), p)
}

// strings.HasSuffix; strings with decimal segments are compared on their trailing concrete
// part (a decimal segment holds digits only, so a non-digit cannot match inside it).
func extHasSuffix(fr *frame, args []value) value {
	i := fr.i
	s, p := args[0], args[1]
	if hasDec(p) {
		panic(engineError("HasSuffix: suffix with a decimal segment"))
	}
	lp := strLen(p)
	if lp == 0 {
		return true
	}
	if hasDec(s) {
		elems := s.(symstr).b
		trail := 0
		for trail < len(elems) {
			if _, isDec := elems[len(elems)-1-trail].(decSeg); isDec {
				break
			}
			trail++
		}
		n := lp
		if trail < n {
			n = trail
		}
		r := i.strEq(mkstr(elems[len(elems)-n:]), strSlice(p, lp-n, lp))
		if r == false {
			return false
		}
		if lp <= trail {
			return r
		}
		// the suffix reaches into the decimal segment
		pe := strElems(p)
		if isD, known := isDigitByte(pe[lp-n-1]); known && !isD {
			return false
		}
		panic(engineError("HasSuffix: suffix extends into a decimal segment"))
	}
	if strLen(s) < lp {
		return false
	}
	ls := strLen(s)
	return i.strEq(strSlice(s, ls-lp, ls), p)
}

// encoding/json.Marshal for values whose type provides MarshalJSON: the result is what
// that method returns (the real Marshal only validates and compacts it). Everything
// else needs reflection and is not modelled.
func extJSONMarshal(fr *frame, args []value) value {
	it, ok := args[0].(iface)
	if !ok || it.t == nil {
		panic(engineError("json.Marshal of nil"))
	}
	res, ok := fr.i.invoke(fr, it, "MarshalJSON")
	if !ok {
		if out, done := jsonFlatStruct(it); done {
			return tuple{out, iface{}}
		}
		panic(engineError("json.Marshal of " + it.t.String() + " (no MarshalJSON method; reflection-based encoding is not modelled)"))
	}
	return res
}

// jsonFlatStruct encodes a struct whose exported fields are concrete strings, booleans or
// integers (response envelopes) exactly as encoding/json does.
func jsonFlatStruct(it iface) (value, bool) {
	st, ok := it.t.Underlying().(*types.Struct)
	if !ok {
		return nil, false
	}
	sv, ok := it.v.(structure)
	if !ok || len(sv) != st.NumFields() {
		return nil, false
	}
	var sb strings.Builder
	sb.WriteByte('{')
	first := true
	for f := 0; f < st.NumFields(); f++ {
		fld := st.Field(f)
		if !fld.Exported() {
			continue
		}
		name := fld.Name()
		tag := reflect.StructTag(st.Tag(f)).Get("json")
		if tag == "-" {
			continue
		}
		if tag != "" {
			parts := strings.Split(tag, ",")
			if len(parts) > 1 {
				return nil, false // omitempty, string: not modelled
			}
			if parts[0] != "" {
				name = parts[0]
			}
		}
		var enc []byte
		switch v := sv[f].(type) {
		case string:
			enc, _ = json.Marshal(v)
		case bool:
			enc, _ = json.Marshal(v)
		case int:
			enc, _ = json.Marshal(v)
		case int64:
			enc, _ = json.Marshal(v)
		case uint64:
			enc, _ = json.Marshal(v)
		default:
			return nil, false
		}
		if !first {
			sb.WriteByte(',')
		}
		first = false
		k, _ := json.Marshal(name)
		sb.Write(k)
		sb.WriteByte(':')
		sb.Write(enc)
	}
	sb.WriteByte('}')
	out := make([]value, sb.Len())
	for j := 0; j < sb.Len(); j++ {
		out[j] = sb.String()[j]
	}
	return out, true
}

// encoding/json.Unmarshal into a value whose type provides UnmarshalJSON.
func extJSONUnmarshal(fr *frame, args []value) value {
	it, ok := args[1].(iface)
	if !ok || it.t == nil {
		panic(engineError("json.Unmarshal into nil"))
	}
	res, ok := fr.i.invoke(fr, it, "UnmarshalJSON", args[0])
	if ok {
		return res
	}
	// flat JSON objects with integer members into a struct of tagged integer fields
	// (git-bug's type probes): decoded by a small exact model
	if r, done := fr.i.jsonProbe(fr, args[0], it); done {
		return r
	}
	if fr.i.params["json_opaque_decode"] == 1 {
		// opt-in (stated in the check): the decoded field values are not modelled, the
		// call either succeeds leaving the target as it is or fails
		t := fr.i.ps.fresh("choose", "json-decode-outcome", 8)
		if fr.i.ps.branch(fr.i.tt().Cmp("eq", t, fr.i.tt().Const(8, 0))) {
			return iface{}
		}
		return fr.i.newError("json: cannot unmarshal")
	}
	panic(engineError("json.Unmarshal into " + it.t.String() + " (no UnmarshalJSON method; reflection-based decoding is not modelled)"))
}

// jsonProbe decodes {"name":<integer>} objects (the integer may be a decimal segment)
// into a pointer to a struct whose fields are integers with json tags.
func (i *interpreter) jsonProbe(fr *frame, data value, target iface) (value, bool) {
	pt, ok := target.t.Underlying().(*types.Pointer)
	if !ok {
		return nil, false
	}
	st, ok := pt.Elem().Underlying().(*types.Struct)
	if !ok || st.NumFields() == 0 {
		return nil, false
	}
	for f := 0; f < st.NumFields(); f++ {
		b, ok := st.Field(f).Type().Underlying().(*types.Basic)
		if !ok || b.Info()&types.IsInteger == 0 {
			return nil, false
		}
	}
	elems := seqOf(data)
	// tokens: { "name" : value , ... }
	pos := 0
	skip := func() {
		for pos < len(elems) {
			c, ok := elems[pos].(uint8)
			if ok && (c == ' ' || c == '\n' || c == '\t') {
				pos++
				continue
			}
			break
		}
	}
	expect := func(ch byte) bool {
		skip()
		if pos < len(elems) {
			if c, ok := elems[pos].(uint8); ok && c == ch {
				pos++
				return true
			}
		}
		return false
	}
	fail := func() (value, bool) { return nil, false }
	if !expect('{') {
		return fail()
	}
	p := target.v.(*value)
	if p == nil {
		return fail()
	}
	dst := (*p).(structure)
	for {
		if !expect('"') {
			return fail()
		}
		name := ""
		for pos < len(elems) {
			c, ok := elems[pos].(uint8)
			if !ok {
				return fail()
			}
			pos++
			if c == '"' {
				break
			}
			name += string(rune(c))
		}
		if !expect(':') {
			return fail()
		}
		skip()
		if pos >= len(elems) {
			return fail()
		}
		var val value
		if d, isDec := elems[pos].(decSeg); isDec {
			val = sym{d.t, types.Uint64}
			pos++
		} else {
			n := uint64(0)
			digits := 0
			for pos < len(elems) {
				c, ok := elems[pos].(uint8)
				if !ok || c < '0' || c > '9' {
					break
				}
				n = n*10 + uint64(c-'0')
				digits++
				pos++
			}
			if digits == 0 {
				return fail()
			}
			val = n
		}
		for f := 0; f < st.NumFields(); f++ {
			tag := reflectTagJSON(st.Tag(f))
			if tag == name || (tag == "" && strings.EqualFold(st.Field(f).Name(), name)) {
				k := st.Field(f).Type().Underlying().(*types.Basic).Kind()
				switch v := val.(type) {
				case sym:
					dst[f] = i.symConv(k, v)
				case uint64:
					dst[f] = bitsToValue(k, v)
				}
			}
		}
		if expect(',') {
			continue
		}
		if expect('}') {
			skip()
			if pos != len(elems) {
				return fail()
			}
			return iface{}, true
		}
		return fail()
	}
}

func reflectTagJSON(tag string) string {
	const key = `json:"`
	i := strings.Index(tag, key)
	if i < 0 {
		return ""
	}
	rest := tag[i+len(key):]
	j := strings.IndexAny(rest, `",`)
	if j < 0 {
		return ""
	}
	return rest[:j]
}

// crypto/rand.Read (M-RAND): nonces have no functional role in git-bug; the bytes are a
// fixed pattern so that native replays, which draw real random bytes, cannot diverge on
// anything that depends on them being equal to the model's.
// reflect.DeepEqual on concrete interpreter values (structs, slices, maps, pointers,
// interfaces, scalars, strings); symbolic parts make the path inconclusive.
func extDeepEqual(fr *frame, args []value) value {
	return deepEq(fr.i, args[0], args[1], 0)
}

func deepEq(i *interpreter, a, b value, depth int) bool {
	if depth > 64 {
		panic(engineError("reflect.DeepEqual: too deep (cyclic value?)"))
	}
	switch x := a.(type) {
	case nil:
		return b == nil
	case iface:
		y, ok := b.(iface)
		if !ok {
			return false
		}
		if x.t == nil || y.t == nil {
			return x.t == nil && y.t == nil
		}
		if !types.Identical(x.t, y.t) {
			return false
		}
		return deepEq(i, x.v, y.v, depth+1)
	case structure:
		y, ok := b.(structure)
		if !ok || len(x) != len(y) {
			return false
		}
		for k := range x {
			if !deepEq(i, x[k], y[k], depth+1) {
				return false
			}
		}
		return true
	case array:
		y, ok := b.(array)
		if !ok || len(x) != len(y) {
			return false
		}
		for k := range x {
			if !deepEq(i, x[k], y[k], depth+1) {
				return false
			}
		}
		return true
	case []value:
		y, ok := b.([]value)
		if !ok || len(x) != len(y) || (x == nil) != (y == nil) {
			return false
		}
		for k := range x {
			if !deepEq(i, x[k], y[k], depth+1) {
				return false
			}
		}
		return true
	case *value:
		y, ok := b.(*value)
		if !ok {
			return false
		}
		if x == y {
			return true
		}
		if x == nil || y == nil {
			return false
		}
		return deepEq(i, *x, *y, depth+1)
	case *omap:
		y, ok := b.(*omap)
		if !ok {
			return false
		}
		if x == y {
			return true
		}
		if x == nil || y == nil || x.len() != y.len() {
			return false
		}
		if x.symKeys > 0 || y.symKeys > 0 {
			panic(engineError("reflect.DeepEqual: map with symbolic keys"))
		}
		for k := range x.keys {
			if !x.live[k] {
				continue
			}
			w, has := y.lookup(i, x.keys[k])
			if !has || !deepEq(i, x.vals[k], w, depth+1) {
				return false
			}
		}
		return true
	case sym, symstr:
		panic(engineError("reflect.DeepEqual on a symbolic value"))
	}
	if _, isSym := b.(sym); isSym {
		panic(engineError("reflect.DeepEqual on a symbolic value"))
	}
	if _, isSym := b.(symstr); isSym {
		panic(engineError("reflect.DeepEqual on a symbolic value"))
	}
	return a == b
}

// extLinkname forwards a body-less //go:linkname declaration to the function it names.
func extLinkname(pkgPath, name string) func(fr *frame, args []value) value {
	return func(fr *frame, args []value) value {
		pkg := fr.i.prog.ImportedPackage(pkgPath)
		if pkg == nil {
			panic(engineError(pkgPath + " not loaded"))
		}
		fn := pkg.Func(name)
		if fn == nil {
			panic(engineError("no function " + pkgPath + "." + name))
		}
		return call(fr.i, fr, 0, fn, args)
	}
}

func extRandRead(fr *frame, args []value) value {
	b := args[0].([]value)
	for j := range b {
		b[j] = uint8(0x40 + j%32)
	}
	return tuple{len(b), iface{}}
}

// ---------------------------------------------------------------------------
// encoding/gob (M-GOB): an encoded value is an opaque token that decodes to a deep copy
// of the exported part of the value (unexported struct fields are dropped, as gob does).

type gobState struct {
	writers map[*value]value // *Encoder -> io.Writer
	readers map[*value]value // *Decoder -> io.Reader
	blobs   map[string]gobBlob
	next    int
}

type gobBlob struct {
	t types.Type
	v value
}

func (i *interpreter) gob() *gobState {
	if i.gobst == nil {
		i.gobst = &gobState{writers: map[*value]value{}, readers: map[*value]value{}, blobs: map[string]gobBlob{}}
	}
	return i.gobst
}

func init() {
	externals["encoding/gob.Register"] = func(fr *frame, a []value) value { return nil }
	externals["encoding/gob.RegisterName"] = func(fr *frame, a []value) value { return nil }
	externals["encoding/gob.NewEncoder"] = func(fr *frame, a []value) value {
		t := fr.i.namedType("encoding/gob", "Encoder")
		cell := zero(t)
		p := &cell
		fr.i.gob().writers[p] = a[0]
		return p
	}
	externals["encoding/gob.NewDecoder"] = func(fr *frame, a []value) value {
		t := fr.i.namedType("encoding/gob", "Decoder")
		cell := zero(t)
		p := &cell
		fr.i.gob().readers[p] = a[0]
		return p
	}
	externals["(*encoding/gob.Encoder).Encode"] = func(fr *frame, a []value) value {
		i := fr.i
		g := i.gob()
		w, ok := g.writers[a[0].(*value)]
		if !ok {
			panic(engineError("gob: unknown encoder"))
		}
		it := a[1].(iface)
		if it.t == nil {
			return i.newError("gob: cannot encode nil")
		}
		g.next++
		tok := fmt.Sprintf("gob:%d;", g.next)
		g.blobs[tok] = gobBlob{t: it.t, v: gobCopy(it.t, it.v, map[*value]*value{})}
		res, ok2 := i.invoke(fr, w.(iface), "Write", strBytes(tok))
		if !ok2 {
			panic(engineError("gob: writer has no Write method"))
		}
		return res.(tuple)[1]
	}
	externals["(*encoding/gob.Decoder).Decode"] = func(fr *frame, a []value) value {
		i := fr.i
		g := i.gob()
		r, ok := g.readers[a[0].(*value)]
		if !ok {
			panic(engineError("gob: unknown decoder"))
		}
		// read one token
		var tok []value
		for {
			buf := make([]value, 64)
			for k := range buf {
				buf[k] = uint8(0)
			}
			res, ok2 := i.invoke(fr, r.(iface), "Read", buf)
			if !ok2 {
				panic(engineError("gob: reader has no Read method"))
			}
			n := int(asInt64(res.(tuple)[0]))
			tok = append(tok, buf[:n]...)
			if e := res.(tuple)[1].(iface); e.t != nil || n == 0 {
				break
			}
		}
		s, isConc := mkstr(tok).(string)
		if !isConc {
			panic(engineError("gob: symbolic stream"))
		}
		blob, ok3 := g.blobs[s]
		if !ok3 {
			return i.newError("gob: undecodable stream (EOF or corrupt)")
		}
		dst := a[1].(iface)
		pt, isPtr := dst.t.Underlying().(*types.Pointer)
		if !isPtr || !types.Identical(pt.Elem().Underlying(), blob.t.Underlying()) {
			return i.newError("gob: type mismatch")
		}
		p := dst.v.(*value)
		store(pt.Elem(), p, gobCopy(blob.t, blob.v, map[*value]*value{}))
		return iface{}
	}
}

// gobCopy deep-copies v of static type t, zeroing unexported struct fields.
func gobCopy(t types.Type, v value, memo map[*value]*value) value {
	switch tt := t.Underlying().(type) {
	case *types.Struct:
		src := v.(structure)
		out := make(structure, len(src))
		for f := 0; f < tt.NumFields(); f++ {
			if tt.Field(f).Exported() {
				out[f] = gobCopy(tt.Field(f).Type(), src[f], memo)
			} else {
				out[f] = zero(tt.Field(f).Type())
			}
		}
		return out
	case *types.Array:
		src := v.(array)
		out := make(array, len(src))
		for k := range src {
			out[k] = gobCopy(tt.Elem(), src[k], memo)
		}
		return out
	case *types.Slice:
		src, _ := v.([]value)
		if src == nil {
			return []value(nil)
		}
		out := make([]value, len(src))
		for k := range src {
			out[k] = gobCopy(tt.Elem(), src[k], memo)
		}
		return out
	case *types.Map:
		src, _ := v.(*omap)
		if src == nil {
			return (*omap)(nil)
		}
		out := &omap{keyType: src.keyType, idx: make(map[interface{}][]int)}
		for k := range src.keys {
			if !src.live[k] {
				continue
			}
			key := gobCopy(tt.Key(), src.keys[k], memo)
			val := gobCopy(tt.Elem(), src.vals[k], memo)
			p := len(out.keys)
			out.keys = append(out.keys, key)
			out.vals = append(out.vals, val)
			out.live = append(out.live, true)
			out.n++
			if hasSymDeep(key) {
				out.symKeys++
			} else {
				hk := hashKey(key)
				out.idx[hk] = append(out.idx[hk], p)
			}
		}
		return out
	case *types.Pointer:
		src := v.(*value)
		if src == nil {
			return (*value)(nil)
		}
		if c, ok := memo[src]; ok {
			return c
		}
		cell := new(value)
		memo[src] = cell
		*cell = gobCopy(tt.Elem(), *src, memo)
		return cell
	case *types.Interface:
		it := v.(iface)
		if it.t == nil {
			return it
		}
		return iface{t: it.t, v: gobCopy(it.t, it.v, memo)}
	}
	return v
}

// M-PGP: openpgp.CheckDetachedSignature. The real function dereferences its readers
// (a nil reader panics); the verdict for non-nil readers is whatever the harness's
// signature reader says for the given keyring (VHVerdictFor: signed by one of its
// entities), or VHVerdict for readers without that method; an error if it does not say.
func init() {
	externals["github.com/ProtonMail/go-crypto/openpgp.CheckDetachedSignature"] = func(fr *frame, a []value) value {
		i := fr.i
		signed, sig := a[1].(iface), a[2].(iface)
		if signed.t == nil || sig.t == nil {
			runtimePanic(i, "invalid memory address or nil pointer dereference (nil reader passed to openpgp)")
		}
		var ring value = a[0]
		if kr, isIface := ring.(iface); isIface {
			ring = kr.v // the EntityList inside the KeyRing interface
		}
		if res, ok := i.invoke(fr, sig, "VHVerdictFor", ring); ok {
			if i.truth(res) {
				return tuple{(*value)(nil), iface{}}
			}
			return tuple{(*value)(nil), i.newError("openpgp: invalid signature")}
		}
		if res, ok := i.invoke(fr, sig, "VHVerdict"); ok && i.truth(res) {
			return tuple{(*value)(nil), iface{}}
		}
		return tuple{(*value)(nil), i.newError("openpgp: invalid signature")}
	}
}
