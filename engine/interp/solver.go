package interp

// One long-lived SMT solver process per worker, spoken to in SMT-LIB2 over pipes.

import (
	"bufio"
	"fmt"
	"io"
	"os"
	"os/exec"
	"strconv"
	"strings"
	"time"
)

type satResult int

const (
	resSat satResult = iota
	resUnsat
	resUnknown
)

func (r satResult) String() string {
	switch r {
	case resSat:
		return "sat"
	case resUnsat:
		return "unsat"
	}
	return "unknown"
}

type solver struct {
	name    string
	cmd     *exec.Cmd
	in      io.WriteCloser
	out     *bufio.Reader
	defined map[int]bool // term ids defined since last reset
	log     io.Writer    // optional transcript
	timeMs  int
	// statistics
	nSat, nUnsat, nUnknown int
	elapsed                time.Duration
	errors                 []string
}

// SolverLogDir, when set, makes every solver process write its transcript there (used by
// the cross-solver comparison); each transcript stops at SolverLogCap bytes.
var SolverLogDir string
var SolverLogCap int64 = 8 << 20

type cappedWriter struct {
	w    io.Writer
	left int64
}

func (c *cappedWriter) Write(p []byte) (int, error) {
	if c.left <= 0 {
		return len(p), nil
	}
	c.left -= int64(len(p))
	return c.w.Write(p)
}

// SolverCommand is the argv of the back end; default z3 -in.
var SolverCommand = []string{"z3-new", "-in"}

func newSolver(timeoutMs int) (*solver, error) {
	s := &solver{name: SolverCommand[0], timeMs: timeoutMs}
	s.cmd = exec.Command(SolverCommand[0], SolverCommand[1:]...)
	in, err := s.cmd.StdinPipe()
	if err != nil {
		return nil, err
	}
	out, err := s.cmd.StdoutPipe()
	if err != nil {
		return nil, err
	}
	s.cmd.Stderr = os.Stderr
	if err := s.cmd.Start(); err != nil {
		return nil, err
	}
	s.in = in
	s.out = bufio.NewReaderSize(out, 1<<16)
	if SolverLogDir != "" {
		f, _ := os.OpenFile(fmt.Sprintf("%s/w%d.smt2", SolverLogDir, s.cmd.Process.Pid), os.O_CREATE|os.O_WRONLY|os.O_TRUNC, 0644)
		s.log = &cappedWriter{w: f, left: SolverLogCap}
	} else if p := os.Getenv("GOBMC_SMTLOG"); p != "" {
		f, _ := os.OpenFile(fmt.Sprintf("%s.%d", p, s.cmd.Process.Pid), os.O_CREATE|os.O_WRONLY|os.O_TRUNC, 0644)
		s.log = f
	}
	s.reset()
	return s, nil
}

func (s *solver) close() {
	if s == nil || s.cmd == nil {
		return
	}
	s.in.Close()
	s.cmd.Process.Kill()
	s.cmd.Wait()
}

func (s *solver) send(line string) {
	if s.log != nil {
		io.WriteString(s.log, line+"\n")
	}
	io.WriteString(s.in, line+"\n")
}

func (s *solver) reset() {
	s.send("(reset)")
	if strings.HasPrefix(s.name, "z3") {
		s.send(fmt.Sprintf("(set-option :timeout %d)", s.timeMs))
	}
	s.defined = make(map[int]bool)
}

func (s *solver) ref(t *Term) string {
	switch t.op {
	case "const", "var":
		return t.render(nil)
	}
	return "t" + strconv.Itoa(t.id)
}

// define makes sure t and all its sub-terms are known to the solver and returns
// the name to use for t.
func (s *solver) define(t *Term) string {
	switch t.op {
	case "const":
		return t.render(nil)
	case "var":
		if !s.defined[t.id] {
			s.defined[t.id] = true
			s.send(fmt.Sprintf("(declare-const %s %s)", t.name, sortOf(t.w)))
		}
		return t.name
	}
	if s.defined[t.id] {
		return s.ref(t)
	}
	// iterative post-order to avoid deep recursion
	type item struct {
		t    *Term
		done bool
	}
	stack := []item{{t, false}}
	for len(stack) > 0 {
		it := stack[len(stack)-1]
		stack = stack[:len(stack)-1]
		if s.defined[it.t.id] {
			continue
		}
		if it.t.op == "const" {
			continue
		}
		if it.t.op == "var" {
			s.defined[it.t.id] = true
			s.send(fmt.Sprintf("(declare-const %s %s)", it.t.name, sortOf(it.t.w)))
			continue
		}
		if it.done {
			s.defined[it.t.id] = true
			s.send(fmt.Sprintf("(define-fun t%d () %s %s)", it.t.id, sortOf(it.t.w), it.t.render(s.ref)))
			continue
		}
		stack = append(stack, item{it.t, true})
		for _, a := range it.t.args {
			if !s.defined[a.id] && a.op != "const" {
				stack = append(stack, item{a, false})
			}
		}
	}
	return s.ref(t)
}

func (s *solver) assert(t *Term) {
	n := s.define(t)
	s.send("(assert " + n + ")")
}

func (s *solver) readLine() string {
	line, err := s.out.ReadString('\n')
	if err != nil {
		s.errors = append(s.errors, "solver pipe: "+err.Error())
		return "(error \"pipe\")"
	}
	line = strings.TrimSpace(line)
	if s.log != nil {
		io.WriteString(s.log, "; -> "+line+"\n")
	}
	return line
}

// check decides satisfiability of (asserted ∧ lit) where lit is t or ¬t; t may be nil.
// An "unknown" that is not a solver error (a timeout on a starved machine) is asked once
// more with six times the time limit before it is reported.
func (s *solver) check(t *Term, neg bool) satResult {
	nerr := len(s.errors)
	r := s.check1(t, neg)
	if r == resUnknown && len(s.errors) == nerr && strings.HasPrefix(s.name, "z3") {
		s.nUnknown--
		s.send(fmt.Sprintf("(set-option :timeout %d)", 6*s.timeMs))
		r = s.check1(t, neg)
		s.send(fmt.Sprintf("(set-option :timeout %d)", s.timeMs))
	}
	return r
}

func (s *solver) check1(t *Term, neg bool) satResult {
	start := time.Now()
	if t == nil {
		s.send("(check-sat)")
	} else {
		n := s.define(t)
		if neg {
			n = "(not " + n + ")"
		}
		s.send("(check-sat-assuming (" + n + "))")
	}
	var r satResult
	for {
		line := s.readLine()
		if line == "" {
			continue
		}
		switch {
		case line == "sat":
			r = resSat
			s.nSat++
		case line == "unsat":
			r = resUnsat
			s.nUnsat++
		case line == "unknown":
			r = resUnknown
			s.nUnknown++
		case strings.HasPrefix(line, "(error"):
			s.errors = append(s.errors, line)
			r = resUnknown
			s.nUnknown++
		default:
			// unsupported / warnings: keep reading
			if strings.Contains(line, "unsupported") {
				s.errors = append(s.errors, line)
			}
			continue
		}
		break
	}
	s.elapsed += time.Since(start)
	return r
}

// values reads the model values of the given variables after a sat answer.
func (s *solver) values(vars []*Term) (map[string]uint64, error) {
	res := make(map[string]uint64)
	if len(vars) == 0 {
		return res, nil
	}
	var sb strings.Builder
	sb.WriteString("(get-value (")
	for _, v := range vars {
		sb.WriteString(s.define(v))
		sb.WriteString(" ")
	}
	sb.WriteString("))")
	s.send(sb.String())
	// read until parentheses balance
	var buf strings.Builder
	depth := 0
	started := false
	for {
		line := s.readLine()
		if strings.HasPrefix(line, "(error") {
			s.errors = append(s.errors, line)
			return nil, fmt.Errorf("get-value: %s", line)
		}
		buf.WriteString(line)
		buf.WriteString(" ")
		for _, c := range line {
			if c == '(' {
				depth++
				started = true
			} else if c == ')' {
				depth--
			}
		}
		if started && depth <= 0 {
			break
		}
	}
	toks := tokenizeSexp(buf.String())
	// pattern: ( ( name value ) ( name value ) ... ) where value is #x.. | #b.. | true | false | (_ bvN w)
	i := 0
	next := func() string {
		if i < len(toks) {
			i++
			return toks[i-1]
		}
		return ""
	}
	if next() != "(" {
		return nil, fmt.Errorf("get-value: unexpected %q", buf.String())
	}
	for i < len(toks) {
		tk := next()
		if tk == ")" {
			break
		}
		if tk != "(" {
			return nil, fmt.Errorf("get-value: unexpected token %q in %q", tk, buf.String())
		}
		name := next()
		v := next()
		var val uint64
		switch {
		case v == "true":
			val = 1
		case v == "false":
			val = 0
		case strings.HasPrefix(v, "#x"):
			val, _ = strconv.ParseUint(v[2:], 16, 64)
		case strings.HasPrefix(v, "#b"):
			val, _ = strconv.ParseUint(v[2:], 2, 64)
		case v == "(":
			// (_ bvN w)
			next() // _
			bv := next()
			next() // w
			next() // )
			val, _ = strconv.ParseUint(strings.TrimPrefix(bv, "bv"), 10, 64)
		default:
			return nil, fmt.Errorf("get-value: unexpected value %q", v)
		}
		if next() != ")" {
			return nil, fmt.Errorf("get-value: missing ) in %q", buf.String())
		}
		res[name] = val
	}
	return res, nil
}

func tokenizeSexp(s string) []string {
	var toks []string
	cur := ""
	flush := func() {
		if cur != "" {
			toks = append(toks, cur)
			cur = ""
		}
	}
	for _, c := range s {
		switch c {
		case '(', ')':
			flush()
			toks = append(toks, string(c))
		case ' ', '\t', '\n', '\r':
			flush()
		default:
			cur += string(c)
		}
	}
	flush()
	return toks
}
