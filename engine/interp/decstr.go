package interp

// Decimal segments: a symstr element decSeg{t} stands for the canonical decimal
// rendering of the unsigned 64-bit term t (symbolic length). git-bug stores Lamport
// clocks in tree-entry names and clock files this way; only the operations that code
// needs are supported, anything else makes the path inconclusive.

import (
	"fmt"
	"go/types"
	"strconv"
)

type decSeg struct {
	t *Term // 64-bit, unsigned value
}

func hasDec(v value) bool {
	s, ok := v.(symstr)
	if !ok {
		return false
	}
	for _, e := range s.b {
		if _, ok := e.(decSeg); ok {
			return true
		}
	}
	return false
}

func seqHasDec(b []value) bool {
	for _, e := range b {
		if _, ok := e.(decSeg); ok {
			return true
		}
	}
	return false
}

// digitsTerm returns the number of decimal digits of t as a 64-bit term.
func (i *interpreter) digitsTerm(t *Term) *Term {
	tt := i.tt()
	acc := tt.Const(64, 20)
	pow := uint64(10000000000000000000) // 10^19
	for d := 19; d >= 1; d-- {
		acc = tt.Ite(tt.Cmp("ult", t, tt.Const(64, pow)), tt.Const(64, uint64(d)), acc)
		pow /= 10
	}
	return acc
}

// symLen returns len(s) for a string with decimal segments.
func (i *interpreter) symLen(s symstr) value {
	tt := i.tt()
	n := 0
	var acc *Term
	for _, e := range s.b {
		if d, ok := e.(decSeg); ok {
			dt := i.digitsTerm(d.t)
			if acc == nil {
				acc = dt
			} else {
				acc = tt.Bin("bvadd", acc, dt)
			}
		} else {
			n++
		}
	}
	if acc == nil {
		return n
	}
	return mkval(tt.Bin("bvadd", acc, tt.Const(64, uint64(n))), types.Int)
}

// leadingConcrete returns the number of elements before the first decimal segment.
func leadingConcrete(b []value) int {
	for j, e := range b {
		if _, ok := e.(decSeg); ok {
			return j
		}
	}
	return len(b)
}

func isDigitByte(e value) (bool, bool) { // (isDigit, known)
	c, ok := e.(uint8)
	if !ok {
		return false, false
	}
	return c >= '0' && c <= '9', true
}

// decEq compares two strings at least one of which has decimal segments.
func (i *interpreter) decEq(a, b value) value {
	x, y := strElems(a), strElems(b)
	tt := i.tt()
	var r value = true
	for len(x) > 0 || len(y) > 0 {
		if len(x) == 0 || len(y) == 0 {
			// one side ended: the other must be empty too; a decimal segment is never empty
			return false
		}
		dx, xIsDec := x[0].(decSeg)
		dy, yIsDec := y[0].(decSeg)
		switch {
		case !xIsDec && !yIsDec:
			r = i.vAnd(r, i.byteEq(x[0], y[0]))
			if r == false {
				return false
			}
			x, y = x[1:], y[1:]
		case xIsDec && yIsDec:
			i.requireDelimited(x[1:])
			i.requireDelimited(y[1:])
			r = i.vAnd(r, mkval(tt.Cmp("eq", dx.t, dy.t), types.Bool))
			x, y = x[1:], y[1:]
		default:
			if yIsDec {
				x, y = y, x
				dx = dy
			}
			// x[0] is decimal, y starts with bytes: take y's maximal digit run
			i.requireDelimited(x[1:])
			n := 0
			for n < len(y) {
				isD, known := isDigitByte(y[n])
				if !known {
					if _, isDec := y[n].(decSeg); isDec {
						panic(engineError("string comparison: digits followed by a decimal segment"))
					}
					panic(engineError("string comparison: decimal segment against symbolic bytes"))
				}
				if !isD {
					break
				}
				n++
			}
			if n == 0 {
				return false
			}
			digits := make([]byte, n)
			for j := 0; j < n; j++ {
				digits[j] = y[j].(uint8)
			}
			if n > 1 && digits[0] == '0' {
				return false // not canonical
			}
			v, err := strconv.ParseUint(string(digits), 10, 64)
			if err != nil {
				return false
			}
			r = i.vAnd(r, mkval(tt.Cmp("eq", dx.t, tt.Const(64, v)), types.Bool))
			x, y = x[1:], y[n:]
		}
	}
	return r
}

// requireDelimited checks that what follows a decimal segment cannot extend its digits.
func (i *interpreter) requireDelimited(rest []value) {
	if len(rest) == 0 {
		return
	}
	isD, known := isDigitByte(rest[0])
	if known && !isD {
		return
	}
	panic(engineError("decimal segment followed by a digit or symbolic byte: comparison not supported"))
}

func strElems(v value) []value {
	switch s := v.(type) {
	case string:
		return strBytes(s)
	case symstr:
		return s.b
	}
	panic(engineError(fmt.Sprintf("strElems: %T", v)))
}

// asDecimal returns the term of a string that is exactly one decimal segment.
func asDecimal(v value) (*Term, bool) {
	s, ok := v.(symstr)
	if !ok || len(s.b) != 1 {
		return nil, false
	}
	d, ok := s.b[0].(decSeg)
	return d.t, ok
}
