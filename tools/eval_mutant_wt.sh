#!/bin/sh
# usage: eval_mutant_wt.sh <patch> <check-id>...
# Applies the patch to a scratch worktree of /repo (never to /repo itself, so that runs in
# the background keep reading the unchanged tree), runs the quick checks against it
# (evidence goes to evidence_scratch/), removes the worktree.
p=$(realpath "$1"); shift
export GOFLAGS=-mod=mod GOPROXY=off GOSUMDB=off GOTOOLCHAIN=local
wt=/tmp/mutwt.$$
git -C /repo worktree add -q --detach $wt HEAD || exit 2
( cd $wt && git apply "$p" ) || { echo "patch does not apply"; git -C /repo worktree remove --force $wt; exit 2; }
for id in "$@"; do
  out=$(cd /verif && timeout 1800 ./bin/gobmc -repo $wt -check checks/$id.json -tier quick 2>&1); code=$?
  echo "  check $id exit=$code: $(echo "$out" | grep '^VIOLATION' | head -3 | tr '\n' ' ') $(echo "$out" | grep -c '^INCONCLUSIVE') inconclusive"
  echo "$out" | grep '^  harness=' | head -3
done
git -C /repo worktree remove --force $wt
git -C /repo worktree prune
