#!/bin/sh
# usage: seed_take.sh <Cxx> <suffix> [check ids...]
# Takes what a seeding sub-agent left in /tmp/wt_<Cxx>/_out (patch.diff, zz_demo_test.go,
# where.txt, needs.txt), files it as seeded/<Cxx>-<suffix>/, confirms it in that worktree
# (tools/confirm_mutant3.sh), removes the worktree and runs the quick checks against the
# change in a fresh scratch worktree (tools/eval_mutant_wt.sh). meta.json is written by hand
# afterwards (needs.txt is kept until then).
p=$1; suf=$2; shift 2
[ $# -gt 0 ] || set -- $p
cd /verif || exit 2
wt=/tmp/wt_$p; d=seeded/$p-$suf
[ -f $wt/_out/patch.diff ] || { echo "$p: nothing delivered"; exit 2; }
mkdir -p $d
cp $wt/_out/patch.diff $wt/_out/needs.txt $d/
pk=$(grep -o '\./[A-Za-z0-9_/]*' $wt/_out/where.txt | head -1 | sed 's,^\./,,; s,/$,,')
(echo "// place in: $pk"; cat $wt/_out/zz_demo_test.go) > $d/demo_test.go
rm -rf $wt/_out
echo "== $p-$suf pkg=$pk"
sh tools/confirm_mutant3.sh $wt /verif/$d ./$pk/... 2>&1 | tail -5
git -C /repo worktree remove --force $wt; git -C /repo worktree prune
sh tools/eval_mutant_wt.sh $d/patch.diff "$@" 2>&1
