#!/bin/sh
# usage: eval_mutant.sh <patch> <check-id>...   : applies the patch to /repo, runs the checks, reverts.
p=$1; shift
cd /repo && git apply "$p" || { echo "patch does not apply to /repo"; exit 2; }
for id in "$@"; do
  out=$(cd /verif && timeout 1800 ./check $id quick 2>&1); code=$?
  echo "  check $id exit=$code: $(echo "$out" | grep '^VIOLATION' | head -3 | tr '\n' ' ') $(echo "$out" | grep -c '^INCONCLUSIVE') inconclusive"
  echo "$out" | grep '^  harness=' | head -3
done
git -C /repo checkout -q -- .
