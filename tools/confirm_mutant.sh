#!/bin/sh
# usage: confirm_mutant.sh <worktree> <mutant-dir> <pkgdir-for-demo> <go test packages...>
# Confirms in a scratch worktree: builds + existing tests pass with the change; demo fails with, passes without.
wt=$1; m=$2; pkg=$3; shift 3
export GOFLAGS=-mod=mod GOPROXY=off GOSUMDB=off GOTOOLCHAIN=local
cd $wt || exit 2
git checkout -q -- . ; rm -f $pkg/zz_demo_test.go
git apply $m/patch.diff || { echo "PATCH DOES NOT APPLY"; exit 2; }
go build ./... || { echo "BUILD FAILS"; git checkout -q -- .; exit 2; }
if go test -count=1 "$@" >/tmp/cm_tests.log 2>&1; then echo "existing tests: PASS with mutant"; else echo "existing tests: FAIL with mutant"; tail -5 /tmp/cm_tests.log; fi
cp $m/demo_test.go $pkg/zz_demo_test.go
if go test -count=1 -run 'Demo|C[0-9][0-9]M|M[0-9]' ./$pkg/ >/tmp/cm_demo1.log 2>&1; then echo "demo with mutant: PASS (unexpected)"; else echo "demo with mutant: FAIL (expected)"; fi
git checkout -q -- .
if go test -count=1 -run 'Demo|C[0-9][0-9]M|M[0-9]' ./$pkg/ >/tmp/cm_demo2.log 2>&1; then echo "demo without mutant: PASS (expected)"; else echo "demo without mutant: FAIL (unexpected)"; tail -5 /tmp/cm_demo2.log; fi
rm -f $pkg/zz_demo_test.go
