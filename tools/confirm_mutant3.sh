#!/bin/sh
# usage: confirm_mutant3.sh <worktree> <mutant-dir> <go test packages...>
# Like confirm_mutant.sh; the demo's package dir is read from its first line ("// place in: <dir>")
# and its tests are selected by name.
wt=$1; m=$2; shift 2
export GOFLAGS=-mod=mod GOPROXY=off GOSUMDB=off GOTOOLCHAIN=local
pkg=$(head -1 $m/demo_test.go | sed 's,^// *place in: *,,; s,[ /]*$,,')
names=$(grep -o '^func Test[A-Za-z0-9_]*' $m/demo_test.go | sed 's/^func //' | tr '\n' '|' | sed 's/|$//')
cd $wt || exit 2
git checkout -q -- . ; git clean -fdq; 
git apply $m/patch.diff || { echo "PATCH DOES NOT APPLY"; exit 2; }
go build ./... || { echo "BUILD FAILS"; git checkout -q -- .; exit 2; }
if go test -count=1 "$@" >/tmp/cm_tests.log 2>&1; then echo "existing tests: PASS with mutant"; else echo "existing tests: FAIL with mutant"; grep -a '^--- FAIL\|^FAIL' /tmp/cm_tests.log | head -8; fi
cp $m/demo_test.go $pkg/zz_demo_test.go
if go test -count=1 -run "^($names)\$" ./$pkg/ >/tmp/cm_demo1.log 2>&1; then echo "demo with mutant: PASS (unexpected)"; else echo "demo with mutant: FAIL (expected)"; fi
git checkout -q -- .
if go test -count=1 -run "^($names)\$" ./$pkg/ >/tmp/cm_demo2.log 2>&1; then echo "demo without mutant: PASS (expected)"; else echo "demo without mutant: FAIL (unexpected)"; tail -5 /tmp/cm_demo2.log; fi
rm -f $pkg/zz_demo_test.go
echo "pkg=$pkg tests=$names"
