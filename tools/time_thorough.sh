#!/bin/sh
# usage: time_thorough.sh [check-id...] : runs every harness of the given checks (all by default) at the
# thorough tier on its own, with a wall-clock cap, and prints one line per harness
# (experiments: evidence goes to evidence_scratch/).
cd "$(dirname "$0")/.." || exit 2
export GOFLAGS=-mod=mod GOPROXY=off GOSUMDB=off GOTOOLCHAIN=local
cap=${CAP:-1500}
ids="$@"
[ -z "$ids" ] && ids=$(ls checks/C*.json | sed 's,checks/,,;s,\.json,,')
for id in $ids; do
  for h in $(python3 -c "import json;print(' '.join(h['name'] for h in json.load(open('checks/$id.json'))['harnesses']))"); do
    start=$(date +%s)
    out=$(timeout $cap ./bin/gobmc -check checks/$id.json -only $h -tier thorough -crosscheck off 2>&1); code=$?
    end=$(date +%s)
    echo "$id $h exit=$code $((end-start))s $(echo "$out" | grep '^harness' | sed 's/  */ /g' | cut -c1-160)"
    echo "$out" | grep '^VIOLATION\|^INCONCLUSIVE' | cut -c1-250 | head -3
  done
done
